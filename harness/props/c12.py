"""C12 - shard selection options mean the same thing in every iteration interface.

Model: Select.tla - the selection routine (filter -> non-empty check -> first k -> per-metadata limit) over the
complete cell space (every shard/metadata layout up to MaxLen x every predicate x k x limit), meta-properties
checked by TLC. Binding: for every cell the real shard_paths_dataset, and for a covering sample the five
iteration interfaces (fb, npz, tfrec), are executed on real datasets with that layout; TLC (Select_Eval) judges
observed selection = Select(cell)."""
from __future__ import annotations

import itertools
import json
import random
import shutil
import tempfile
import traceback
from pathlib import Path

from .. import dshist as H, tlc
from ..core import Ctx, MachineryError

LEVEL = "model_checking"
MDV = ("None", "A", "B")
NONE = 99
INV = ["SubsequenceOfInput", "EmptyIsError", "FilterRespected", "TruncationBeforeLimit", "LimitRespected",
       "LimitKeepsEarliest", "NoOptionIsIdentity", "OnlyLimitOrCutDrops"]


def _consts(maxlen, limit_first=False):
    return {"MaxLen": maxlen, "MDV": frozenset(MDV), "MaxK": maxlen + 1, "MaxLim": 3, "LimitFirst": limit_first}


def build_and_observe(task: dict) -> dict:
    """Worker: one layout (sequence of metadata values, one shard each); returns observations."""
    out = {"error": None, "obs": [], "problems": []}
    tmp = Path(tempfile.mkdtemp(prefix="verif_c12_"))
    try:
        from .. import rustext
        rustext.preload()
        from sedpack.io import Dataset, Metadata
        from .. import dsreal, readers
        fmt, comp = task["fmt"], task["compression"]
        mds = task["mds"]
        ds = Dataset.create(tmp / "ds", Metadata(description="c12"), dsreal.structure(fmt, comp, 1, ("md5",)))
        with ds.filler() as f:
            for i, md in enumerate(mds, start=1):
                f.write_example(values=dsreal.example(i), split="train", custom_metadata=dsreal.MD_FLAT[md])
            f.write_example(values=dsreal.example(1000), split="test")  # a foreign split must never leak in
        ds = Dataset(tmp / "ds")
        order = [dsreal.md_name(s.custom_metadata) for s in ds.shard_info_iterator("train")]
        if order != list(mds):
            out["problems"].append(("layout", f"layout {mds} was stored as {order}"))
            return out
        paths = [str(ds.path / s.file_infos[0].file_path) for s in ds.shard_info_iterator("train")]
        pos = {p: i + 1 for i, p in enumerate(paths)}

        # ONE predicate object per dataset handle whose accepted set the caller changes between passes (the way a
        # training script keeps one `keep(shard_info)` function and edits the set it looks at); even-numbered cells
        # use a fresh closure instead, so both calling styles are exercised
        accepted = set()

        def shared_predicate(s):
            return dsreal.md_name(s.custom_metadata) in accepted

        ncell = [0]

        def mk_filter(cell):
            if cell["nofilter"]:
                return None
            ncell[0] += 1
            if ncell[0] % 2:
                accepted.clear()
                accepted.update(cell["pred"])
                return shared_predicate
            acc = set(cell["pred"])
            return lambda s: dsreal.md_name(s.custom_metadata) in acc

        def opt(v):
            return None if v == NONE else v

        for cell in task["cells"]:
            o = dict(cell, mds=list(mds), iface="shard_paths_dataset", ordered=True, error=False, got=[])
            try:
                sel = ds.shard_paths_dataset("train", shards=opt(cell["k"]),
                                             custom_metadata_type_limit=opt(cell["lim"]), shard_filter=mk_filter(cell))
                o["got"] = [pos[p] for p in sel]
            except ValueError:
                o["error"] = True
            except Exception as exc:  # pylint: disable=broad-except
                out["problems"].append(("selection-raises", f"shard_paths_dataset {cell} on layout {mds}: "
                                        f"{type(exc).__name__}: {str(exc)[:200]}"))
                continue
            out["obs"].append(o)
        for cell, iface, shuffle, fp in task["iter_cells"]:
            if not readers.supports(iface, fmt, comp, "custom_metadata_type_limit" if cell["lim"] != NONE else None):
                continue
            kw = {"shards": opt(cell["k"]), "shard_filter": mk_filter(cell)}
            if cell["lim"] != NONE:
                kw["custom_metadata_type_limit"] = cell["lim"]
            o = dict(cell, mds=list(mds), iface=iface, ordered=(shuffle == 0), error=False, got=[], shuffle=shuffle,
                     fp=fp)
            try:
                o["got"] = readers.read_ids(ds, iface, "train", repeat=False, shuffle=shuffle, file_parallelism=fp,
                                            **kw)
            except ValueError:
                o["error"] = True
            except Exception as exc:  # pylint: disable=broad-except
                out["problems"].append(("iteration-error", f"{iface} {cell} on layout {mds}: {type(exc).__name__}: "
                                        f"{str(exc)[:200]}"))
                continue
            if any(i not in range(1, len(mds) + 1) for i in o["got"]):
                out["problems"].append(("foreign-example", f"{iface} {cell} on layout {mds} yielded {o['got']}"))
                continue
            out["obs"].append(o)
    except Exception:  # pylint: disable=broad-except
        out["error"] = traceback.format_exc()
    finally:
        shutil.rmtree(tmp, ignore_errors=True)
    return out


def all_cells(maxlen):
    preds = [{"nofilter": True, "pred": []}] + [{"nofilter": False, "pred": list(c)} for n in range(len(MDV) + 1)
                                                for c in itertools.combinations(MDV, n)]
    ks = list(range(0, maxlen + 2)) + [NONE]
    lims = [0, 1, 2, 3, NONE]
    return [dict(p, k=k, lim=lim) for p in preds for k in ks for lim in lims]


def run(ctx: Ctx) -> None:
    q = ctx.quick
    maxlen = 4 if q else 5
    ctx.assumptions += ["shard layouts up to %d shards over metadata values {absent, A, B}; one example per shard so "
                        "that a selected shard is identified by the example it yields" % maxlen,
                        "negative k / limit values are outside the stated option values and are not generated"]
    d = ctx.tmp / "mc"
    d.mkdir()
    cfg = tlc.make_cfg(d / "sel.cfg", spec="Spec", constants=_consts(maxlen), invariants=INV)
    res = tlc.run("Select", cfg, workers=16, coverage=False, timeout=1500)
    ctx.add_tlc(f"cells_len{maxlen}", res)
    if not res.ok:
        raise MachineryError(f"Select.tla violates {res.violated}")
    ctx.log(f"TLC: {res.distinct} cells (layout x predicate x k x limit), all meta-properties hold")
    cfg2 = tlc.make_cfg(d / "sanity.cfg", spec="Spec", constants=_consts(3, True), invariants=INV)
    res2 = tlc.run("Select", cfg2, workers=4, coverage=False)
    if "TruncationBeforeLimit" not in res2.violated and "LimitKeepsEarliest" not in res2.violated \
            and "LimitRespected" not in res2.violated:
        raise MachineryError(f"model sanity: limit-before-cut variant not refuted ({res2.violated})")
    ctx.cov["model_sanity"] = f"limit applied before the first-k cut is refuted: {res2.violated}"

    rng = random.Random(ctx.seed + 12)
    layouts = [list(t) for n in range(1, maxlen + 1) for t in itertools.product(MDV, repeat=n)]
    cells = all_cells(maxlen)
    ifaces = ["numpy", "concurrent", "async", "rust", "tfdata"]
    tasks = []
    per_layout_iter = 30 if q else 120
    for li, mds in enumerate(layouts):
        fmt, comp = ("fb", "")
        if li % 9 == 4:
            fmt, comp = ("npz", "")
        elif li % 9 == 7:
            fmt, comp = ("tfrec", "")
        elif li % 9 == 2:
            fmt, comp = ("fb", "LZ4")
        mycells = [c for c in cells if c["k"] == NONE or c["k"] <= len(mds) + 1]
        iter_cells = []
        for _ in range(per_layout_iter):
            c = rng.choice(mycells)
            iface = ifaces[rng.randrange(len(ifaces))]
            if iface in ("async", "rust"):
                c = dict(c, lim=NONE)  # these interfaces do not take the per-metadata limit
            iter_cells.append((c, iface, rng.choice((0, 0, 3)), rng.choice((1, 2, 7))))
        tasks.append({"mds": mds, "fmt": fmt, "compression": comp, "cells": mycells if (fmt == "fb" or not q) else
                      rng.sample(mycells, 40), "iter_cells": iter_cells})
    from .. import rustext
    rustext.build()
    try:
        outs = H.run_histories(tasks, fn=build_and_observe)
    finally:
        H.shutdown_pool()
    obs, owner = [], []
    for t, o in zip(tasks, outs):
        if o["error"]:
            raise MachineryError(o["error"])
        for kind, what in o["problems"]:
            ctx.violation(f"C12|kind={kind}|fmt={t['fmt']}", what, {"task": {k: v for k, v in t.items() if k != "cells"}})
        for ob in o["obs"]:
            obs.append(ob)
            owner.append(t)
    of = ctx.tmp / "obs.json"
    chunks = [obs[i:i + 20000] for i in range(0, len(obs), 20000)]
    n_dis = 0
    by_iface = {}
    for ci, chunk in enumerate(chunks):
        of.write_text(json.dumps(chunk))
        ecfg = tlc.make_cfg(ctx.tmp / f"ev{ci}.cfg", spec="ESpec", constants=_consts(maxlen), invariants=["Judge"])
        r = tlc.run("Select_Eval", ecfg, workers=1, coverage=False, cont=True, env={"OBS_FILE": str(of)},
                    timeout=3000)
        if r.distinct != len(chunk):
            raise MachineryError(f"Select_Eval judged {r.distinct} of {len(chunk)} observations\n{r.out[-2000:]}")
        for p in r.prints:
            if isinstance(p, tuple) and p and p[0] == "DISAGREE":
                ob = chunk[p[1] - 1]
                n_dis += 1
                opt = "limit" if ob["lim"] not in (0, NONE) else ("filter" if not ob["nofilter"] else "first-k")
                ctx.violation(f"C12|kind=selection-differs|iface={ob['iface']}|option={opt}|fmt={owner[ci * 20000 + p[1] - 1]['fmt']}",
                              f"{ob['iface']} on layout {ob['mds']} with predicate="
                              f"{'none' if ob['nofilter'] else ob['pred']} k={ob['k']} limit={ob['lim']} selected "
                              f"{'ERROR' if ob['error'] else ob['got']}, Select.tla says otherwise",
                              {"observation": ob, "fmt": owner[ci * 20000 + p[1] - 1]["fmt"]})
    for ob in obs:
        by_iface[ob["iface"]] = by_iface.get(ob["iface"], 0) + 1
    ctx.cov["observations_judged_by_tlc"] = len(obs)
    ctx.cov["observations_by_interface"] = by_iface
    ctx.cov["traces_validated_against_impl"] = len(obs) - n_dis
    ctx.cov["layouts"] = len(layouts)
    ctx.cov["exhaustive"] = True
    ctx.sample({"kind": "cell judged", **{k: v for k, v in obs[len(obs) // 2].items()}})
    ctx.sample({"kind": "cell judged", **{k: v for k, v in obs[-1].items()}})
    ctx.log(f"{len(obs)} observations on {len(layouts)} real layouts judged by TLC: {n_dis} disagreements; "
            f"by interface {by_iface}")


def replay(ctx: Ctx, body: dict) -> None:
    ob = body["witness"]["observation"]
    cell = {k: ob[k] for k in ("nofilter", "pred", "k", "lim")}
    t = {"mds": ob["mds"], "fmt": body["witness"].get("fmt", "fb"), "compression": "", "cells": [cell],
         "iter_cells": [(cell, ob["iface"], ob.get("shuffle", 0), ob.get("fp", 1))] if ob["iface"] != "shard_paths_dataset" else []}
    o = build_and_observe(t)
    if o["error"]:
        raise MachineryError(o["error"])
    of = ctx.tmp / "obs.json"
    of.write_text(json.dumps(o["obs"]))
    ecfg = tlc.make_cfg(ctx.tmp / "ev.cfg", spec="ESpec", constants=_consts(5), invariants=["Judge"])
    r = tlc.run("Select_Eval", ecfg, workers=1, coverage=False, cont=True, env={"OBS_FILE": str(of)})
    ctx.cov["states"] = r.distinct
    ctx.cov["transitions"] = r.states
    ctx.cov["traces_validated_against_impl"] = len(o["obs"])
    for p in r.prints:
        if isinstance(p, tuple) and p and p[0] == "DISAGREE":
            b = o["obs"][p[1] - 1]
            ctx.violation("C12|kind=selection-differs|iface=" + b["iface"], f"{b['iface']} selected "
                          f"{'ERROR' if b['error'] else b['got']} for {cell} on {ob['mds']}", {"observation": b})
