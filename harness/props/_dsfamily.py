"""Shared driver of the properties decided by Dataset.tla at history level (C04, C08, C10, C11, C18, C03w):
exhaustive TLC over small constants, model sanity with the Defect switches, TLC-simulated behaviours replayed
on real datasets of every format, property predicates evaluated by TLC on the projected states."""
from __future__ import annotations

import collections
import random

from .. import dshist as H
from ..core import Ctx, MachineryError

FMT_STREAMING = {"fb": False, "npz": False, "tfrec": True}


def run_family(ctx: Ctx, *, mc, sanity, sims, preds, problem_kinds, note_sample="history"):
    """mc: [(name, consts, invariants)], sanity: [(name, consts, expected violated invariant)],
    sims: [(name, consts, num, depth, [(fmt, compression, hashes)], eps)],
    preds: Eval predicate names whose falsity is a violation of this property,
    problem_kinds: replay problems (behaviour the specification forbids) that violate this property."""
    ctx.assumptions += [
        "a digest is modelled as the content itself (no collisions)",
        "TLC is exhaustive only for the listed small constants; larger histories are sampled by TLC simulation",
        "one live handle at a time; the file system applies effects in program order (no power loss)",
    ]
    # ------------------------------------------------------------ 1. exhaustive model checking
    import concurrent.futures as cf
    with cf.ThreadPoolExecutor(max_workers=4) as ex:
        futs = [(name, ex.submit(H.model_check, ctx, name, c, invariants=inv, workers=4)) for name, c, inv in mc]
        sfuts = [(name, want, ex.submit(H.model_check, ctx, "sanity_" + name, c, workers=2))
                 for name, c, want in sanity]
        for name, f in futs:
            res = f.result()
            ctx.add_tlc(name, res)
            if not res.ok:
                raise MachineryError(f"Dataset.tla ({name}) violates {res.violated}: the specification models the "
                                     f"repaired protocol and must satisfy its own properties\n"
                                     + "\n".join(l.split(" line")[0] for l, _ in res.error_trace))
            ctx.log(f"TLC {name}: {res.distinct} distinct states, depth {res.depth}, {res.wall_s:.0f}s - all "
                    f"invariants hold")
        seen = []
        for name, want, f in sfuts:
            res = f.result()
            if want not in res.violated:
                raise MachineryError(f"model sanity: defect configuration {name} did not violate {want} "
                                     f"(violated: {res.violated})")
            seen.append(f"{name}: {want} violated after " + " ; ".join(
                l.split(" line")[0] for l, _ in res.error_trace[1:]))
        if seen:
            ctx.cov["model_sanity"] = seen

    # ------------------------------------------------------------ 2. behaviours from TLC, replayed on real datasets
    tasks = []
    labels_seen = collections.Counter()
    for name, c, num, depth, targets, eps in sims:
        res, behs = H.simulate(ctx, name, c, num=num, depth=depth, seed=ctx.seed + 1)
        for b in behs:
            for nm, _a, _s in b:
                labels_seen[nm] += 1
        for i, b in enumerate(behs):
            fmt, comp, hashes = targets[i % len(targets)]
            tasks.append(H.behaviour_to_task(b, fmt=fmt, compression=comp, hashes=list(hashes), eps=eps,
                                             sim=name))
        ctx.log(f"TLC simulation {name}: {len(behs)} behaviours")
    ctx.cov["simulated_action_counts"] = dict(labels_seen)
    need = {"Create", "BeginFiller", "Write", "ExitFiller"}
    if not need <= set(labels_seen):
        raise MachineryError(f"vacuous simulation: actions never taken: {need - set(labels_seen)}")
    if "R11" in preds:
        # C11 also reads the dataset back THROUGH the library's selection by shard metadata at every quiescent point
        for t in tasks:
            t["checks"] = list(H.ALL_CHECKS) + ["R11"]
    outs = H.run_histories(tasks)
    judge_outputs(ctx, tasks, outs, preds, problem_kinds)


def judge_outputs(ctx: Ctx, tasks, outs, preds, problem_kinds):
    states, owner = [], []
    n_hist = n_exact = 0
    distinct = set()
    for ti, (task, out) in enumerate(zip(tasks, outs)):
        if out["error"]:
            raise MachineryError("history replay crashed:\n" + out["error"])
        n_hist += 1
        distinct.add(repr(task["labels"]))
        if out["drift"]:
            ctx.add_drift(f"{task['fmt']}/{task.get('compression', '')} history #{ti}: {out['drift'][0]}",
                          task["labels"])
        else:
            n_exact += 1
        for st in out["states"]:
            states.append(st)
            owner.append(ti)
        for kind, what in out["problems"]:
            if kind in problem_kinds:
                ctx.violation(f"{ctx.prop}|kind={kind}|fmt={task['fmt']}",
                              f"{task['fmt']}/{task.get('compression', '')}: {what}",
                              {"task": _slim(task), "problem": [kind, what]})
        if ti % max(1, len(tasks) // 4) == 0:
            ctx.sample({"kind": "API history replayed on a real dataset", "fmt": task["fmt"],
                        "compression": task.get("compression", ""),
                        "history": [f"{n}{tuple(a)}" for n, a in task["labels"]][:40]})
    by_eps = collections.defaultdict(list)
    for k, st in enumerate(states):
        t = tasks[owner[k]]
        by_eps[(t.get("eps", 2), bool(t.get("hashes", ["sha256"])))].append(k)
    n_false = 0
    for (eps, hashing), idxs in by_eps.items():
        bad = H.evaluate(ctx, [states[k] for k in idxs], f"e{eps}{int(hashing)}", eps=eps, hashing=hashing)
        for j, pred in bad:
            k = idxs[j]
            if pred not in preds:
                continue
            n_false += 1
            task = tasks[owner[k]]
            ctx.violation(f"{ctx.prop}|kind=predicate-{pred}|fmt={task['fmt']}",
                          f"{task['fmt']}/{task.get('compression', '')}: predicate {pred} of Dataset.tla is false "
                          f"on the state projected from the real dataset after step {states[k].get('step')} of "
                          f"the history",
                          {"task": _slim(task), "step": states[k].get("step"), "predicate": pred,
                           "state": {"files": states[k]["files"], "mem": states[k]["mem"],
                                     "readback": states[k].get("readback"), "rbsel": states[k].get("rbsel")}})
    ctx.cov["histories_replayed"] = ctx.cov.get("histories_replayed", 0) + n_hist
    ctx.cov["histories_distinct"] = ctx.cov.get("histories_distinct", 0) + len(distinct)
    ctx.cov["histories_equal_to_spec_state_at_every_quiescent_point"] = \
        ctx.cov.get("histories_equal_to_spec_state_at_every_quiescent_point", 0) + n_exact
    ctx.cov["projected_states_judged_by_tlc"] = ctx.cov.get("projected_states_judged_by_tlc", 0) + len(states)
    ctx.cov["traces_validated_against_impl"] = ctx.cov.get("traces_validated_against_impl", 0) + n_exact
    ctx.log(f"replayed {n_hist} histories ({len(distinct)} distinct), {n_exact} equal to the specification state at "
            f"every quiescent point; {len(states)} projected states judged by TLC, {n_false} predicate failures")


def _slim(task):
    return {k: v for k, v in task.items() if k != "expected"}


def replay_family(ctx: Ctx, body: dict, preds, problem_kinds):
    task = dict(body["witness"]["task"])
    task["expected"] = {}
    out = H.run_history(task)
    ctx.cov["evaluations"] = 1
    ctx.cov["distinct_nontrivial"] = 1
    judge_outputs(ctx, [task], [out], preds, problem_kinds)


# ------------------------------------------------------------------------------------------------
# per-property configurations

FS = frozenset
ROOT_ONLY = FS({()})
MD3 = FS({"None", "A", "B"})


def _targets(ctx: Ctx, streaming: bool):
    if streaming:
        t = [("tfrec", "", ("sha256",)), ("tfrec", "GZIP", ("sha256",))]
        if not ctx.quick:
            t.append(("tfrec", "ZLIB", ("md5", "xxh64")))
        return t
    t = [("fb", "", ("sha256",)), ("npz", "", ("sha256",)), ("fb", "LZ4", ("sha256",))]
    if not ctx.quick:
        t += [("fb", "GZIP", ("md5", "sha1")), ("npz", "ZIP", ("xxh64",)), ("fb", "ZSTD", ("sha256",)),
              ("fb", "BZ2", ("sha3_256",)), ("fb", "LZMA", ("sha512",)), ("fb", "ZLIB", ("xxh128", "xxh32"))]
    return t


def plan(ctx: Ctx, prop: str):
    q = ctx.quick
    c = H.consts
    tree3 = ("tree_3sessions", c(Splits=FS({"train"}), MaxSessions=3, MaxWrites=2), H.INVARIANTS)
    tree2s = ("tree_2splits", c(MaxSessions=2, MaxWrites=2, FillerDirs=FS({(), ("s",)})), H.INVARIANTS)
    shard5 = ("shard_1session_5writes", c(Splits=FS({"train"}), FillerDirs=ROOT_ONLY, MaxK=1, MaxSessions=1,
                                          MaxWrites=5, MDs=MD3, Kinds=FS({"good", "bad"})), H.INVARIANTS)
    shard23 = ("shard_2sessions_3writes", c(Splits=FS({"train"}), FillerDirs=ROOT_ONLY, MaxK=1, MaxSessions=2,
                                            MaxWrites=3, MDs=MD3, Kinds=FS({"good", "bad"})), H.INVARIANTS)
    stream = ("streaming_badlate", c(Splits=FS({"train"}), FillerDirs=ROOT_ONLY, MaxK=1, MaxSessions=1, MaxWrites=4,
                                     MDs=FS({"None", "A"}), Kinds=FS({"good", "bad", "badlate"}), Streaming=True),
              H.INVARIANTS)
    nohash = ("tree_no_checksums", c(Splits=FS({"train"}), MaxSessions=2, MaxWrites=2, Hashing=False), H.INVARIANTS)
    n = (lambda a, b: a if q else b)
    abort = ("tree_failed_multi_call", c(Splits=FS({"train"}), FillerDirs=ROOT_ONLY, MaxSessions=3, MaxWrites=2, MaxK=2,
                                         MaxAborts=1), H.INVARIANTS)
    sim_tree = lambda s: (f"sim_tree_{'stream' if s else 'atclose'}",  # noqa: E731
                          c(MaxSessions=4, MaxWrites=3, MaxK=2, Streaming=s, MaxAborts=1), n(18 if s else 54, 800 if s else 2500),
                          45, _targets(ctx, s), 2)
    sim_shard = lambda s, eps: (f"sim_shard_eps{eps}_{'stream' if s else 'atclose'}",  # noqa: E731
                                c(FillerDirs=FS({(), ("s",)}), MaxK=1, MaxSessions=2, MaxWrites=2 * eps + 2, MDs=MD3,
                                  Kinds=FS({"good", "bad"}) | (FS({"badlate"}) if s else FS()), Streaming=s, EPS=eps),
                                n(10 if s else 24, 400 if s else 1200), 40, _targets(ctx, s), eps)
    sim_ref = ("sim_mutable_metadata", c(Splits=FS({"train"}), FillerDirs=ROOT_ONLY, MaxK=1, MaxSessions=2,
                                         MaxWrites=5, MDs=FS({"None", "A", "B", "REF"}), UseRef=True),
               n(45, 1500), 30, _targets(ctx, False) + _targets(ctx, True)[:1], 2)
    if prop in ("C04", "C08", "C03"):
        mc = [tree3, tree2s, abort] + ([] if q else [nohash, shard23])
        sanity = [("merge_without_dedupe", c(Splits=FS({"train"}), MaxSessions=2, MaxWrites=1, Dedupe=False),
                   "NoSessionFails")]
        sims = [sim_tree(False), sim_tree(True)]
        # datasets without checksum algorithms (hash_checksum_algorithms=()): the metadata then carries no digests
        sims.append(("sim_tree_no_checksums", c(MaxSessions=3, MaxWrites=3, Hashing=False), 12 if q else 300, 40,
                     [("fb", "", ()), ("npz", "", ()), ("tfrec", "", ())][:2], 2))
        if prop == "C03":
            # write order across shard-level metadata changes (a label that goes away and comes back while its shard
            # is not full: A B A), good and rejected writes interleaved
            mc.append(shard5)
            sims.append(("sim_label_returns", c(Splits=FS({"train"}), FillerDirs=ROOT_ONLY, MaxK=1, MaxSessions=1,
                                                MaxWrites=6, MDs=FS({"A", "B"}), EPS=3), n(16, 400), 30,
                         _targets(ctx, False), 3))
    elif prop == "C10":
        mc = [shard5] + ([] if q else [shard23]) + [
            ("shard_eps1", c(Splits=FS({"train"}), FillerDirs=ROOT_ONLY, MaxK=1, MaxSessions=1, MaxWrites=4, MDs=MD3,
                             Kinds=FS({"good", "bad"}), EPS=1), H.INVARIANTS),
            ("shard_eps3_2splits", c(FillerDirs=ROOT_ONLY, MaxK=1, MaxSessions=1, MaxWrites=4,
                                     MDs=FS({"None", "A"}), EPS=3), H.INVARIANTS)]
        sanity = []
        sims = [sim_shard(False, 1), sim_shard(False, 2), sim_shard(False, 3), sim_shard(True, 2)]
    elif prop == "C11":
        mc = [shard5, ("mutable_metadata_object", c(Splits=FS({"train"}), FillerDirs=ROOT_ONLY, MaxK=1, MaxSessions=1,
                                                    MaxWrites=4, MDs=FS({"None", "A", "B", "REF"}), UseRef=True),
                       H.INVARIANTS)]
        sanity = [("metadata_by_reference", c(Splits=FS({"train"}), FillerDirs=ROOT_ONLY, MaxK=1, MaxSessions=1,
                                               MaxWrites=3, MDs=FS({"None", "REF"}), UseRef=True, MdByRef=True),
                   "C11_Label")]
        sims = [sim_ref, sim_shard(False, 2), sim_shard(True, 2)]
        # labelled sessions into a dataset without checksum algorithms, selected by label after every session
        sims.append(("sim_labels_no_checksums", c(Splits=FS({"train"}), FillerDirs=FS({(), ("s",)}), MaxK=1,
                                                  MaxSessions=3, MaxWrites=4, MDs=MD3, Hashing=False),
                     n(10, 300), 40, [("fb", "", ()), ("npz", "", ()), ("tfrec", "", ())][:2], 2))
    elif prop == "C18":
        mc = [shard5, stream] + ([] if q else [shard23])
        sanity = [("rollover_of_empty_shard", c(Splits=FS({"train"}), FillerDirs=ROOT_ONLY, MaxK=1, MaxSessions=1,
                                                 MaxWrites=3, MDs=MD3, Kinds=FS({"good", "bad"}), EmptyRoll=True),
                   "NoSessionFails")]
        sims = [sim_shard(False, 2), sim_shard(True, 2), sim_shard(False, 1), sim_shard(True, 1)]
    else:
        raise MachineryError(prop)
    return mc, sanity, sims


PREDS = {
    "C04": ({"C04"}, set()),
    "C08": ({"C08", "R08"}, {"session-failed", "create-again-accepted", "create-again-error", "create-again-changed",
                             "good-write-rejected", "readback-raised"}),
    "C03": ({"C03", "R03"}, set()),
    "C10": ({"C10"}, set()),
    "C11": ({"C11", "R11"}, set()),
    "C18": ({"C18"}, {"session-failed", "good-write-rejected", "bad-shape-accepted", "readback-raised"}),
}


def run_prop(ctx: Ctx, prop: str):
    mc, sanity, sims = plan(ctx, prop)
    preds, kinds = PREDS[prop]
    try:
        run_family(ctx, mc=mc, sanity=sanity, sims=sims, preds=preds, problem_kinds=kinds)
    finally:
        H.shutdown_pool()


def replay_prop(ctx: Ctx, body: dict, prop: str):
    preds, kinds = PREDS[prop]
    try:
        replay_family(ctx, body, preds, kinds)
    finally:
        H.shutdown_pool()
