"""Runs the TLA+ proof system on the proof modules under spec/proofs.

The proofs establish, for EVERY value of the constants (source length, buffer size, thread count, ...), invariants
that TLC only checks for small constants. A proof module EXTENDS the very specification module that TLC checks and
that the conformance harness binds to the code, so there is one source of truth; the proofs are re-checked from
scratch (no fingerprint cache) by the checks that rely on them."""
from __future__ import annotations

import os
import re
import shutil
import signal
import subprocess
import tempfile
import time
from pathlib import Path

from .core import Ctx, MachineryError

VERIF = Path(__file__).resolve().parent.parent
SPEC = VERIF / "spec"
PROOFS = SPEC / "proofs"
STDLIB = Path("/opt/veriftools/tlapm/lib/tlapm/stdlib")


def prove(ctx: Ctx, module: str, theorems: list[str], timeout: int = 1500) -> dict:
    """Check spec/proofs/<module>.tla; every obligation must be discharged. Returns a summary for the evidence."""
    if shutil.which("tlapm") is None:
        raise MachineryError("tlapm is not on PATH")
    src = PROOFS / f"{module}.tla"
    text = src.read_text()
    for th in theorems:
        if not re.search(rf"^THEOREM\s+{re.escape(th)}\s*==", text, re.M):
            raise MachineryError(f"{src}: theorem {th} not found")
    work = Path(tempfile.mkdtemp(prefix="verif_tlaps_", dir=str(ctx.tmp)))
    try:
        # the proof module and, transitively, the proof / specification modules it extends (TLAPS has no TLC /
        # community modules: the proof modules only extend specifications that do not need them)
        todo = [src]
        while todo:
            f = todo.pop()
            if (work / f.name).exists():
                continue
            shutil.copy(f, work / f.name)
            ext = re.findall(r"^EXTENDS\s+(.*)$", f.read_text(), re.M)
            for m in (ext[0].split(",") if ext else []):
                m = m.strip()
                for d in (PROOFS, SPEC):
                    if (d / f"{m}.tla").exists():
                        todo.append(d / f"{m}.tla")
                        break
        t0 = time.time()
        # back-end time limits are wall-clock limits: on a loaded machine an obligation that normally takes a second
        # can exceed them. The first pass starts from scratch with doubled limits; if obligations remain, further
        # passes re-try only those (the fingerprints of this run keep the discharged ones) with much longer limits.
        attempts = [["--cleanfp", "--stretch", "2"], ["--stretch", "8", "--threads", "4"],
                    ["--stretch", "30", "--threads", "2"]]
        out, m, p = "", None, None
        for n_try, extra in enumerate(attempts, start=1):
            # tlapm races several back ends per obligation and does not always reap the losers (a solver that was
            # out-run can keep a core busy for an hour): it gets its own process group, which is killed afterwards
            proc = subprocess.Popen(["tlapm", *extra, "-I", str(STDLIB), src.name], cwd=work, stdout=subprocess.PIPE,
                                    stderr=subprocess.STDOUT, text=True, start_new_session=True)
            try:
                out, _ = proc.communicate(timeout=timeout)
            except subprocess.TimeoutExpired:
                out = ""
            finally:
                try:
                    os.killpg(proc.pid, signal.SIGKILL)
                except (ProcessLookupError, PermissionError):
                    pass
                proc.wait()
            p = proc
            m = re.search(r"All (\d+) obligations? proved", out)
            if p.returncode == 0 and m:
                break
        wall = time.time() - t0
        if p.returncode != 0 or not m:
            failed = re.search(r"(\d+)/(\d+) obligations failed", out)
            raise MachineryError(f"tlapm did not discharge {module}: " +
                                 (f"{failed.group(1)} of {failed.group(2)} obligations failed" if failed else "error") +
                                 "\n" + out[-3000:])
        res = {"module": f"spec/proofs/{module}.tla", "theorems": theorems, "obligations_proved": int(m.group(1)),
               "wall_s": round(wall, 1), "passes": n_try, "backends": "tlapm 1.6.0-pre (SMT, Zenon, Isabelle, PTL)"}
        ctx.cov.setdefault("tlaps_proofs", []).append(res)
        ctx.log(f"TLAPS: {module}: all {m.group(1)} proof obligations discharged in {wall:.0f}s - "
                f"{', '.join(theorems)} hold for every value of the constants")
        return res
    finally:
        shutil.rmtree(work, ignore_errors=True)
