---------------------------- MODULE LazyPool_Proofs ----------------------------
(* TLAPS proof that the lazy thread pool never has more than Prefill + 1 inputs handed out beyond the results *)
(* its caller has received (C14), for EVERY thread count, input length, set of failing inputs, abandon        *)
(* position, prefill and number of rounds (pool reuse) - TLC checks T <= 3, N <= 10.                          *)
EXTENDS LazyPool, SequenceTheorems, TLAPS

ASSUME ConstAssump == /\ T \in Nat /\ T >= 1 /\ N \in Nat /\ Prefill \in Nat /\ Prefill >= 1
                      /\ Rounds \in Nat /\ Rounds >= 1

CPcs == {"prefill", "get", "reset", "putnext", "yield", "abandon", "raise", "between"}

Inv ==
    /\ rnd \in Round /\ fed \in Nat /\ k \in Nat /\ cur \in Int
    /\ cpc \in CPcs
    /\ toProc \in [Round -> Seq(Int)]
    /\ results \in [Round -> Seq(Int)]
    /\ yielded \in [Round -> Seq(Int)]
    /\ witem \in [W -> Int]
    /\ \A r \in Round : r > rnd => yielded[r] = <<>>
    /\ cpc = "prefill" => fed = k /\ k < Prefill /\ yielded[rnd] = <<>>
    /\ cpc # "prefill" => fed = Prefill + Len(yielded[rnd]) + (IF cpc = "yield" THEN 1 ELSE 0)

LEMMA RoundProps == Round \subseteq Nat /\ 1 \in Round
  BY ConstAssump DEF Round

LEMMA InitInv == Init => Inv
  <1> SUFFICES ASSUME Init PROVE Inv
    OBVIOUS
  <1> USE ConstAssump, RoundProps
  <1>1. <<>> \in Seq(Int) /\ Len(<<>>) = 0
    BY EmptySeq
  <1> QED BY <1>1 DEF Init, Inv, CPcs

LEMMA NextElemInt == Inv => NextElem \in Int
  BY ConstAssump DEF Inv, NextElem, SENT

LEMMA LoopPcIn == LoopPc \in {"get", "reset"}
  BY DEF LoopPc

LEMMA NextInv == Inv /\ [Next]_vars => Inv'
  <1> SUFFICES ASSUME Inv, [Next]_vars PROVE Inv'
    OBVIOUS
  <1> USE ConstAssump, RoundProps
  <1>0. rnd \in Round /\ yielded[rnd] \in Seq(Int) /\ Len(yielded[rnd]) \in Nat
        /\ toProc[rnd] \in Seq(Int) /\ results[rnd] \in Seq(Int)
    BY LenProperties DEF Inv
  <1>1. CASE CPrefillPut
    <2>1. toProc' \in [Round -> Seq(Int)]
      BY <1>1, <1>0, NextElemInt, AppendProperties DEF CPrefillPut, Inv
    <2>2. cpc' = "prefill" \/ cpc' \in {"get", "reset"}
      BY <1>1, LoopPcIn DEF CPrefillPut
    <2>3. cpc' # "prefill" => k + 1 = Prefill
      BY <1>1, LoopPcIn DEF CPrefillPut
    <2>4. cpc' = "prefill" => k + 1 < Prefill
      BY <1>1, LoopPcIn DEF CPrefillPut, Inv
    <2> QED BY <1>1, <1>0, <2>1, <2>2, <2>3, <2>4, EmptySeq DEF CPrefillPut, Inv, CPcs
  <1>2. CASE CGet
    <2>1. Head(results[rnd]) \in Int /\ Tail(results[rnd]) \in Seq(Int)
      BY <1>2, <1>0, HeadTailProperties DEF CGet
    <2>2. results' \in [Round -> Seq(Int)]
      BY <1>2, <1>0, <2>1 DEF CGet, Inv
    <2>3. cur' \in Int /\ cpc' \in {"get", "reset", "raise", "putnext"}
      BY <1>2, <2>1 DEF CGet, Inv
    <2> QED BY <1>2, <1>0, <2>2, <2>3 DEF CGet, Inv, CPcs
  <1>3. CASE CPutNext
    <2>1. toProc' \in [Round -> Seq(Int)]
      BY <1>3, <1>0, NextElemInt, AppendProperties DEF CPutNext, Inv
    <2> QED BY <1>3, <1>0, <2>1 DEF CPutNext, Inv, CPcs
  <1>4. CASE CYield
    <2>1. Append(yielded[rnd], cur) \in Seq(Int) /\ Len(Append(yielded[rnd], cur)) = Len(yielded[rnd]) + 1
      BY <1>0, AppendProperties DEF Inv
    <2>2. yielded' \in [Round -> Seq(Int)] /\ yielded'[rnd] = Append(yielded[rnd], cur)
          /\ \A r \in Round : r # rnd => yielded'[r] = yielded[r]
      BY <1>4, <1>0, <2>1 DEF CYield, Inv
    <2>3. cpc' \in {"abandon", "get", "reset"}
      BY <1>4, LoopPcIn DEF CYield
    <2>4. cpc = "yield" /\ UNCHANGED <<toProc, results, wpc, witem, rnd, k, rk, fed, active, cur, outcome>>
      BY <1>4 DEF CYield
    <2>5. fed = Prefill + Len(yielded[rnd]) + 1
      BY <2>4 DEF Inv
    <2>6. fed' = Prefill + Len(yielded'[rnd']) + (IF cpc' = "yield" THEN 1 ELSE 0)
      BY <2>1, <2>2, <2>3, <2>4, <2>5, <1>0
    <2>7. \A r \in Round : r > rnd' => yielded'[r] = <<>>
      BY <2>2, <2>4, <1>0 DEF Inv
    <2> QED BY <1>0, <2>2, <2>3, <2>4, <2>6, <2>7 DEF Inv, CPcs
  <1>5. CASE CResetPut
    <2>0. SENT \in Int /\ Append(toProc[rnd], SENT) \in Seq(Int)
      BY <1>0, AppendProperties DEF SENT
    <2>1. toProc' \in [Round -> Seq(Int)]
      BY <1>5, <1>0, <2>0 DEF CResetPut, Inv
    <2>2. cpc' \in {"between", "reset", "abandon", "raise"} /\ cpc \in ResetPc
      BY <1>5 DEF CResetPut, ResetPc
    <2> QED BY <1>5, <1>0, <2>1, <2>2 DEF CResetPut, Inv, CPcs, ResetPc
  <1>6. CASE CNextRound
    <2>1. rnd + 1 \in Round /\ yielded[rnd + 1] = <<>>
      BY <1>6, <1>0 DEF CNextRound, Inv, Round
    <2>2. witem' = witem /\ toProc' = toProc /\ results' = results /\ yielded' = yielded
      BY <1>6 DEF CNextRound
    <2>3. rnd' = rnd + 1 /\ cpc' = "prefill" /\ k' = 0 /\ fed' = 0 /\ cur' = 0
      BY <1>6 DEF CNextRound
    <2>4. \A r \in Round : r > rnd' => yielded'[r] = <<>>
      BY <2>2, <2>3, <1>0 DEF Inv, Round
    <2>5. yielded'[rnd'] = <<>>
      BY <2>1, <2>2, <2>3
    <2> QED BY <1>0, <2>1, <2>2, <2>3, <2>4, <2>5 DEF Inv, CPcs
  <1>7. ASSUME NEW w \in W, WGet(w) PROVE Inv'
    <2>0. w[1] \in Round /\ toProc[w[1]] \in Seq(Int) /\ toProc[w[1]] # <<>>
      BY <1>7 DEF WGet, W, Inv
    <2>1. Head(toProc[w[1]]) \in Int /\ Tail(toProc[w[1]]) \in Seq(Int)
      BY <2>0, HeadTailProperties
    <2>2. toProc' \in [Round -> Seq(Int)] /\ witem' \in [W -> Int]
      BY <1>7, <2>0, <2>1 DEF WGet, Inv
    <2> QED BY <1>7, <2>2 DEF WGet, Inv
  <1>8. ASSUME NEW w \in W, WApply(w) PROVE Inv'
    <2>1. witem' \in [W -> Int]
      BY <1>8 DEF WApply, Inv
    <2> QED BY <1>8, <2>1 DEF WApply, Inv
  <1>9. ASSUME NEW w \in W, WPut(w) PROVE Inv'
    <2>0. w[1] \in Round /\ results[w[1]] \in Seq(Int) /\ witem[w] \in Int
      BY DEF W, Inv
    <2>1. results' \in [Round -> Seq(Int)]
      BY <1>9, <2>0, AppendProperties DEF WPut, Inv
    <2> QED BY <1>9, <2>1 DEF WPut, Inv
  <1>10. ASSUME NEW w \in W, WFwd(w) PROVE Inv'
    <2>0. w[1] \in Round /\ results[w[1]] \in Seq(Int)
      BY DEF W, Inv
    <2>1. results' \in [Round -> Seq(Int)]
      BY <1>10, <2>0, AppendProperties DEF WFwd, Inv, SENT
    <2> QED BY <1>10, <2>1 DEF WFwd, Inv
  <1>11. CASE Finished
    BY <1>11 DEF Finished, Inv, vars
  <1>12. CASE UNCHANGED vars
    BY <1>12 DEF Inv, vars
  <1> QED BY <1>1, <1>2, <1>3, <1>4, <1>5, <1>6, <1>7, <1>8, <1>9, <1>10, <1>11, <1>12 DEF Next, Consumer, Worker

THEOREM InFlightBoundForAllInputs == Spec => [](InFlightBound /\ SourceReadAhead)
  <1>1. Spec => []Inv
    BY InitInv, NextInv, PTL DEF Spec
  <1>2. Inv => InFlightBound /\ SourceReadAhead
    <2> SUFFICES ASSUME Inv PROVE InFlightBound /\ SourceReadAhead
      OBVIOUS
    <2>1. rnd \in Round /\ yielded[rnd] \in Seq(Int) /\ Len(yielded[rnd]) \in Nat
      BY LenProperties DEF Inv
    <2>2. fed - Len(yielded[rnd]) <= Prefill + 1
      BY <2>1, ConstAssump, EmptySeq DEF Inv
    <2> QED BY <2>1, <2>2, ConstAssump DEF Inv, InFlightBound, SourceReadAhead, SourcePulled
  <1> QED BY <1>1, <1>2, PTL
===============================================================================
