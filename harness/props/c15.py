"""C15 - the Rust reader equals the Python reader for every thread count and timing.

Model: ParallelMap.tla - every interleaving of worker completions with the consumer's next() calls for T in 1..4,
N in 0..6, every drop position, every single panicking item; Order, NoSilentTruncation, OneOutstanding, ReadAhead,
DropTerminates. Binding: /verif/rust_harness links /repo/rust and drives the real parallel_map with gate-controlled
mapped functions: an edge cover of the TLC state graphs is imposed (which worker finishes when, relative to
next() and drop), the event log of every run is validated against ParallelMap_Trace.tla; at the Python level the
freshly rebuilt extension is compared with the pure-Python reader over shard counts x thread counts x
compressions x shuffle, and early drops are followed by a thread-count check and a fresh iteration."""
from __future__ import annotations

import json
import os
import random
import shutil
import subprocess
import sysconfig
import tempfile
import traceback
from pathlib import Path

from .. import dshist as H, rustext, tlc
from ..core import Ctx, MachineryError, VERIF

LEVEL = "model_checking"
HARNESS = VERIF / "build" / "rh-target" / "release" / "pmap_harness"
INV = ["Order", "NoSilentTruncation", "OneOutstanding", "ReadAhead"]


def pm_consts(T, N, panics=(frozenset(),), drops=None, fixed=True):
    return {"T": T, "N": N, "PanicChoices": frozenset(frozenset(p) for p in panics),
            "DropChoices": frozenset(drops if drops is not None else range(0, N + 2)), "Fixed": fixed}


def run_harness(T: int, N: int, steps: list[str], timeout: float = 90):
    """Runs one plan. The harness reports `hang <what>` when a call does not return within its watchdog; the clock
    alone does not decide: a plan that reported a hang (or did not finish in time) is run again with a watchdog six
    times longer, and only the second verdict counts (a real hang hangs again, a loaded machine does not)."""
    env = dict(os.environ)
    env["LD_LIBRARY_PATH"] = sysconfig.get_config_var("LIBDIR") + ":" + env.get("LD_LIBRARY_PATH", "")
    inp = f"{T} {N}\n" + "\n".join(steps) + "\n"

    def once(hang_secs, limit):
        env["VERIF_HANG_SECS"] = str(hang_secs)
        try:
            p = subprocess.run([str(HARNESS)], input=inp, capture_output=True, text=True, timeout=limit, env=env)
        except subprocess.TimeoutExpired as exc:
            out = exc.stdout.decode() if isinstance(exc.stdout, bytes) else (exc.stdout or "")
            return -9, [l.split() for l in out.strip().splitlines() if l.strip()] + [["hang", "harness"]]
        return p.returncode, [l.split() for l in p.stdout.strip().splitlines() if l.strip()]

    rc, log = once(20, timeout)
    if any(l and l[0] == "hang" for l in log):
        rc, log = once(120, 7 * timeout)
    return rc, log


def plan_from_path(path, nodes, init_id):
    """TLC path -> harness steps. WRun(w) = open the gate of the item worker w holds; CRecv = next(); CDrop = drop."""
    steps = []
    prev = nodes[init_id]
    for label, nid in path:
        name, args = tlc.label_name(label)
        st = nodes[nid]
        if name == "WRun":
            w = int(args)
            x = prev["witem"][w - 1] if isinstance(prev["witem"], (tuple, list)) else prev["witem"][w]
            steps.append(("panic " if x in prev["Panics"] else "finish ") + str(x))
        elif name == "CRecv":
            steps.append("next")
        elif name == "CDrop":
            steps.append("drop")
        prev = st
    return steps


def normalise_log(log, T, N):
    """`ret x` is logged when next() has returned, but the hand-out of the following task happens inside that call:
    a worker may log `start y` before the consumer logs the `ret` that enabled it. Item Wn + k is handed out by
    the k-th call of next(), so such a start is moved right behind that ret (linearization point of the call)."""
    wn = min(T, N)
    out, deferred, rets = [], [], 0
    for l in log:
        if l[0] == "start" and int(l[1]) - wn > rets:
            deferred.append(l)
            continue
        out.append(l)
        if l[0] == "ret":
            rets += 1
            keep = []
            for d in deferred:
                if int(d[1]) - wn <= rets:
                    out.append(d)
                else:
                    keep.append(d)
            deferred = keep
    return out + deferred


def judge_log(log, T, N, panics, drop) -> list[tuple[str, str]]:
    """Property-level judgement of one run of the real parallel_map (independent of the model)."""
    bad = []
    log = normalise_log(log, T, N)
    full = log
    # the consumer stops at the first exception: what a plan does after "ret panic" is outside normal iteration
    for i, l in enumerate(log):
        if l[0] == "ret" and l[1] == "panic":
            log = log[:i + 1] + [x for x in log[i + 1:] if x[0] in ("dropping", "joined", "hang")]
            break
    rets = [l[1] for l in log if l[0] == "ret"]
    vals = [int(x) for x in rets if x not in ("none", "panic")]
    if vals != list(range(1, len(vals) + 1)):
        bad.append(("order", f"results {vals} are not the inputs in order"))
    if any(l[0] == "hang" for l in log):
        what = [l[1] for l in log if l[0] == "hang"][0]
        bad.append(("hang-" + what, f"{what} did not return although every gate it waits for was opened"))
    started = returned = 0
    worst = 0
    for l in log:
        if l[0] == "start":
            started += 1
        elif l[0] == "ret" and l[1] not in ("none", "panic"):
            returned += 1
        worst = max(worst, started - returned)
    if worst > max(T, 0) + 0 and N > 0:
        bad.append(("read-ahead", f"{worst} tasks started beyond the results returned with {T} threads"))
    if "none" in rets and not panics and drop > N and len(vals) != N:
        bad.append(("truncated", f"iteration ended after {len(vals)} of {N} results"))
    if "none" in rets and panics and len(vals) < N:
        bad.append(("panic-silent-end", f"a worker panicked on {sorted(panics)} and the iteration ended normally "
                    f"after {len(vals)} of {N} results"))
    if any(l[0] == "dropping" for l in log) and not any(l[0] == "joined" for l in log):
        bad.append(("drop-no-join", "drop did not join the worker threads"))
    return bad


# attribute layouts for the whole-example comparison of the Python level (name, dtype, shape)
LAYOUTS = [
    [("a", "int8", (3,)), ("b", "bool", (2,)), ("c", "uint8", (4,)), ("id", "int64", (1,))],
    [("id", "int64", (1,)), ("h", "float16", (2, 2)), ("s", "int16", ()), ("u", "uint32", (1, 3)), ("d", "float64", (2,))],
    [("z", "uint64", (2,)), ("f", "float32", ()), ("id", "int64", (1,)), ("m", "int8", (2, 2)), ("w", "uint16", (3,))],
    [("t", "bool", ()), ("id", "int64", (1,)), ("i", "int32", (2, 1, 2)), ("k", "int8", ())],
]


def layout_example(decl, i: int) -> dict:
    """Deterministic values that use the whole range of each dtype (negative, high bit set, True and False)."""
    import numpy as np
    rng = np.random.default_rng(1000 + i)
    ex = {}
    for n, d, s in decl:
        dt = np.dtype(d)
        size = int(np.prod(s)) if len(s) else 1
        if n == "id":
            v = np.array([i], dtype=dt)
        elif dt.kind == "b":
            v = (rng.integers(0, 2, size=size) == 1).reshape(s)
        elif dt.kind in "iu":
            raw = rng.integers(0, 256, size=size * dt.itemsize, dtype=np.uint8).tobytes()
            v = np.frombuffer(raw, dtype=dt).reshape(s).copy()
            if i % 2 and dt.kind == "i":
                v = -np.abs(v) if size else v
                v = np.asarray(v, dtype=dt).reshape(s)
        else:
            v = (rng.standard_normal(size) * 100).astype(dt).reshape(s)
        ex[n] = np.asarray(v, dtype=dt)
    return ex



def python_level(task: dict) -> dict:
    """Worker: Rust-backed iterator vs pure-Python reader on one dataset."""
    out = {"error": None, "runs": 0, "problems": [], "sample": None}
    tmp = Path(tempfile.mkdtemp(prefix="verif_c15_"))
    try:
        rustext.preload()
        import itertools
        from sedpack.io import Dataset, Metadata
        from .. import dsreal, readers
        comp, nshards, eps = task["compression"], task["nshards"], task["eps"]
        ds = Dataset.create(tmp / "d", Metadata(description="c15"), dsreal.structure("fb", comp, eps, ("md5",)))
        n_ex = nshards * eps - (1 if eps > 1 else 0)
        with ds.filler() as f:
            for i in range(1, n_ex + 1):
                f.write_example(values=dsreal.example(i), split="train")
        ds = Dataset(tmp / "d")
        ref = readers.read_ids(ds, "numpy", "train", repeat=False, shuffle=0)
        base_threads = len(os.listdir("/proc/self/task"))
        if task.get("pause") and nshards >= 3:
            # a consumer that is busy for several seconds after its second example (more shards than reader threads)
            got = readers.read_ids(ds, "rust", "train", repeat=False, shuffle=0, file_parallelism=2,
                                   stall=(2, task["pause"]))
            out["runs"] += 1
            if got != ref:
                out["problems"].append(("sequence-after-pause", f"{comp or 'none'} {nshards} shards, 2 threads, consumer "
                                        f"pauses {task['pause']} s after 2 examples: rust yields {got}, python {ref}"))
        for T in task["threads"]:
            got = readers.read_ids(ds, "rust", "train", repeat=False, shuffle=0, file_parallelism=T)
            out["runs"] += 1
            if got != ref:
                out["problems"].append(("sequence", f"{comp or 'none'} {nshards} shards, {T} threads: rust yields "
                                        f"{got}, python {ref}"))
            for sh in (2, n_ex + 3):
                got = readers.read_ids(ds, "rust", "train", repeat=False, shuffle=sh, file_parallelism=T)
                out["runs"] += 1
                if sorted(got) != sorted(ref):
                    out["problems"].append(("bag", f"{comp or 'none'} {nshards} shards, {T} threads, shuffle {sh}: "
                                            f"rust yields {sorted(got)}, python {sorted(ref)}"))
            # early drop after every prefix, then the threads must be gone and a new iterator must work
            for k in task["prefixes"]:
                if k > n_ex:
                    continue
                it = readers.iterate(ds, "rust", "train", repeat=False, shuffle=0, file_parallelism=T)
                pre = [readers.ex_id(e) for e in itertools.islice(it, k)]
                it.close() if hasattr(it, "close") else None
                del it
                out["runs"] += 1
                if pre != ref[:k]:
                    out["problems"].append(("prefix", f"first {k} of rust {pre} != python {ref[:k]}"))
                import time
                t0 = time.time()
                # (drop joins its threads, so they are normally gone at once; the limit is generous because on a
                # loaded machine a finished thread can linger in /proc for a while)
                while len(os.listdir("/proc/self/task")) > base_threads and time.time() - t0 < 60:
                    time.sleep(0.01)
                left = len(os.listdir("/proc/self/task")) - base_threads
                if left > 0:
                    out["problems"].append(("threads-left", f"{left} threads still alive 60 s after dropping the "
                                            f"iterator after {k} examples ({T} threads)"))
                again = readers.read_ids(ds, "rust", "train", repeat=False, shuffle=0, file_parallelism=T)
                if again != ref:
                    out["problems"].append(("after-drop", f"a new iterator after an early drop yields {again}"))
        # iterators whose lifetimes overlap without being nested: A opened, B opened, A finished, C opened while B is
        # still open - every pass must still equal the Python reader's
        for T in task["threads"][:2]:
            def mk():
                return readers.iterate(ds, "rust", "train", repeat=False, shuffle=0, file_parallelism=T)
            try:
                a, b = mk(), mk()
                ga, gb = [readers.ex_id(next(a))], [readers.ex_id(next(b))] if n_ex >= 1 else []
                ga += [readers.ex_id(e) for e in a]
                c = mk()
                gc = [readers.ex_id(next(c))]
                gb += [readers.ex_id(e) for e in b]
                gc += [readers.ex_id(e) for e in c]
                out["runs"] += 3
                for nm, g in (("A", ga), ("B", gb), ("C", gc)):
                    if g != ref:
                        out["problems"].append(("overlapping", f"overlapping iterators ({T} threads): pass {nm} yields "
                                                f"{g}, python {ref}"))
            except BaseException as exc:  # pylint: disable=broad-except
                out["problems"].append(("overlapping", f"overlapping iterators ({T} threads) raised "
                                        f"{type(exc).__name__}: {str(exc)[:160]}"))
        # "all attribute layouts": the same comparison on whole examples (dtype, shape and bytes of every attribute) for
        # declarations other than the id/payload pair above - one-byte, two-byte and eight-byte items, booleans,
        # scalars, rank 2, attributes in either order
        if task.get("layout") is not None:
            import numpy as np
            from sedpack.io.metadata import Attribute, DatasetStructure
            decl = LAYOUTS[task["layout"] % len(LAYOUTS)]
            st = DatasetStructure(saved_data_description=[Attribute(name=n, dtype=d, shape=s) for n, d, s in decl],
                                  shard_file_type="fb", compression=comp, examples_per_shard=eps,
                                  hash_checksum_algorithms=("md5",))
            dl = Dataset.create(tmp / "L", Metadata(description="c15 layouts"), st)
            with dl.filler() as f:
                for i in range(1, n_ex + 1):
                    f.write_example(values=layout_example(decl, i), split="train")
            dl = Dataset(tmp / "L")

            def whole(iface, T):
                return [{k: (str(np.asarray(v).dtype), tuple(np.asarray(v).shape), np.asarray(v).tobytes().hex())
                         for k, v in e.items()}
                        for e in readers.iterate(dl, iface, "train", repeat=False, shuffle=0, file_parallelism=T)]
            want = whole("numpy", 1)
            wrote = [{n: (d, tuple(s), np.asarray(layout_example(decl, i)[n], dtype=d).tobytes().hex())
                      for n, d, s in decl} for i in range(1, n_ex + 1)]
            if want != wrote:
                out["problems"].append(("layout-python", f"{comp or 'none'} layout {decl}: the Python reader yields "
                                        f"{want[:1]} ..., written {wrote[:1]} ..."))
            for T in task["threads"][:3]:
                got = whole("rust", T)
                out["runs"] += 1
                if got != want:
                    bad = next((i for i, (a, b) in enumerate(zip(got, want)) if a != b), min(len(got), len(want)))
                    out["problems"].append(("layout", f"{comp or 'none'} layout {decl}, {nshards} shards, {T} threads: "
                                            f"example {bad}: rust yields {got[bad] if bad < len(got) else None}, "
                                            f"python {want[bad] if bad < len(want) else None}"))
        out["sample"] = {"compression": comp, "shards": nshards, "examples": n_ex, "threads": task["threads"]}
    except Exception:  # pylint: disable=broad-except
        out["error"] = traceback.format_exc()
    finally:
        shutil.rmtree(tmp, ignore_errors=True)
    return out


def run(ctx: Ctx) -> None:
    q = ctx.quick
    rustext.build()
    if not HARNESS.exists():
        raise MachineryError("rust harness binary missing (tools/build_rust.sh)")
    ctx.assumptions += ["std::sync::mpsc channels and thread spawn/join are trusted; the mapped function is a gate so "
                        "that completion order is controlled, task start-up remains asynchronous",
                        "exhaustive for T<=4, N<=6 in the model; an edge cover of the T<=3, N<=4 graphs is imposed on "
                        "the real code"]
    # ------------------------------------------------------------------ 1. model checking
    cfgs = []
    for T in (1, 2, 3, 4):
        for N in range(0, (6 if q else 8)):
            if T == 4 and N > 5:
                continue
            singles = [frozenset()] + [frozenset({x}) for x in range(1, N + 1)]
            cfgs.append((T, N, singles))
    jobs = []
    for T, N, singles in cfgs:
        d = ctx.tmp / f"pm_T{T}N{N}"
        d.mkdir()
        dump = d / "g.dot" if (T <= 3 and N <= 4) else None
        cfg = tlc.make_cfg(d / "pm.cfg", spec="FairSpec", constants=pm_consts(T, N, singles), invariants=INV,
                           properties=["DropTerminates"], deadlock=True)
        jobs.append((tlc.run, ("ParallelMap", cfg), {"workers": 2, "dump": dump, "coverage": T == 2 and N == 3}))
    from ..lazydrive import parallel
    results = parallel(jobs, max_workers=8)
    graphs = []
    for (T, N, _s), (_f, _a, k), res in zip(cfgs, jobs, results):
        ctx.add_tlc(f"T{T}N{N}", res)
        if not res.ok:
            raise MachineryError(f"ParallelMap.tla T={T} N={N} violates {res.violated}")
        if k["dump"]:
            graphs.append((T, N, k["dump"]))
    cfg = tlc.make_cfg(ctx.tmp / "defect.cfg", spec="Spec", constants=pm_consts(2, 4, [frozenset({2})], [5], False),
                       invariants=INV)
    r = tlc.run("ParallelMap", cfg, workers=1, coverage=False)
    if "NoSilentTruncation" not in r.violated:
        raise MachineryError("model sanity: recv-error-as-end variant not refuted")
    ctx.cov["model_sanity"] = "Fixed=FALSE (receive error mapped to end of iteration) violates NoSilentTruncation"
    ctx.check_vacuity()
    ctx.log(f"TLC: {len(cfgs)} (T,N) configurations x all drop positions x all single panics: "
            f"{ctx.cov['states']} distinct states, all properties hold")

    # ------------------------------------------------------------------ 1b. Order for EVERY T, N, panicking set and
    # drop position: an inductive invariant (where each worker's single outstanding item is) checked by the TLA+ proof
    # system; runs in the background while the plans below are imposed on the real code
    import concurrent.futures as cf
    from .. import tlaps
    prover = cf.ThreadPoolExecutor(max_workers=1)
    proof = prover.submit(tlaps.prove, ctx, "ParallelMap_OrderProofs", ["OrderForAllInputs"])

    # ------------------------------------------------------------------ 2. spec -> code: impose edge covers
    rng = random.Random(ctx.seed + 15)
    traces = {}
    n_plans = n_panic = n_hangs = n_skipped = 0
    budget = 260 if q else 6000
    per = max(4, budget // max(1, len(graphs)))
    for T, N, dot in graphs:
        g = tlc.load_graph(dot)
        byinit = {}
        for i in g.init:
            byinit[i] = g.nodes[i]
        paths = tlc.edge_cover_paths(g)
        # a path starts at the initial node its first edge leaves from
        src_of = {}
        for s, t, lab in g.edges:
            src_of.setdefault((lab, t), s)
        if len(paths) > per:
            paths = rng.sample(paths, per)
        for path in paths:
            # find the initial node: follow edges backwards is not needed - recompute by matching the first edge
            first_lab, first_dst = path[0]
            init_id = None
            for s, t, lab in g.edges:
                if lab == first_lab and t == first_dst and s in byinit:
                    init_id = s
                    break
            if init_id is None:
                continue
            ini = g.nodes[init_id]
            panics = sorted(ini["Panics"])
            drop = ini["DropAfter"]
            steps = plan_from_path(path, g.nodes, init_id)
            if drop == 0:
                steps = ["drop"] + [s for s in steps if s != "drop"]
            if n_hangs >= 3:
                n_skipped += 1      # every confirmed hang costs two watchdog periods; three witnesses are enough
                continue
            rc, log = run_harness(T, N, steps)
            n_plans += 1
            n_panic += bool(panics)
            n_hangs += any(l[0] == "hang" for l in log)
            for kind, what in judge_log(log, T, N, panics, drop):
                sig = f"C15|kind={kind}|panic={'yes' if panics else 'no'}"
                ctx.violation(sig, f"parallel_map T={T} N={N} panics={panics} drop_after={drop}: {what}",
                              {"T": T, "N": N, "steps": steps, "panics": panics, "drop": drop,
                               "log": [" ".join(l) for l in log]})
            log = normalise_log(log, T, N)
            ev = [{"op": ("retpanic" if l[0] == "ret" and l[1] == "panic" else l[0]),
                   "x": (0 if l[1] in ("none", "panic") else int(l[1])) if len(l) > 1 else 0}
                  for l in log if l[0] in ("start", "finish", "panicking", "ret", "dropping", "joined")]
            # the harness' own final drop is part of the log; the model's DropAfter for a run that reached the end
            traces.setdefault((T, N), []).append({"panics": panics, "drop": drop, "events": ev, "steps": steps})
            if n_plans % 60 == 1:
                ctx.sample({"kind": "completion order imposed on the real parallel_map", "T": T, "N": N,
                            "panics": panics, "drop_after": drop, "steps": steps, "log": [" ".join(l) for l in log]})
    # the time dimension, sampled: the consumer is busy elsewhere for a while in the middle of a pass (a training step,
    # a checkpoint) while every worker that has delivered sits idle; nothing may be lost or reordered because of it.
    # (The specification has no clock: a worker may wait for its next task for ever. 6 s in the quick tier, 6 s and
    # 35 s in the thorough tier - the two pauses run concurrently with the proof above.)
    import concurrent.futures as _cf
    pauses = [(2, 5, 1, 6000), (3, 7, 3, 6000)] + ([] if q else [(2, 6, 2, 35000), (4, 9, 5, 35000)])

    def paused(T_, N_, after, ms):
        steps_ = ["openall"] + ["next"] * after + [f"pause {ms}"] + ["next"] * (N_ - after + 1)
        return steps_, run_harness(T_, N_, steps_, timeout=90 + ms / 1000)

    with _cf.ThreadPoolExecutor(max_workers=4) as ex_:
        for (T_, N_, after, ms), (steps_, (rc_, log_)) in zip(pauses, ex_.map(lambda a: paused(*a), pauses)):
            n_plans += 1
            for kind, what in judge_log(log_, T_, N_, [], N_ + 1):
                ctx.violation(f"C15|kind={kind}|panic=no|paused=yes",
                              f"parallel_map T={T_} N={N_}, consumer pauses {ms / 1000:.0f} s after {after} results: "
                              f"{what}", {"T": T_, "N": N_, "steps": steps_, "panics": [], "drop": N_ + 1,
                                          "log": [" ".join(l) for l in log_]})
    ctx.cov["plans_with_a_pausing_consumer"] = len(pauses)
    proof.result()
    prover.shutdown()
    ctx.cov["plans_imposed_on_real_parallel_map"] = n_plans
    if n_skipped:
        ctx.cov["plans_skipped_after_three_hangs"] = n_skipped
    ctx.cov["plans_with_panicking_item"] = n_panic

    # ------------------------------------------------------------------ 3. code -> spec: validate the logs
    n_ok = n_rej = 0
    for (T, N), trs in traces.items():
        d = ctx.tmp / f"tv_T{T}N{N}"
        d.mkdir()
        tf = d / "traces.json"
        tf.write_text(json.dumps([{k: v for k, v in t.items() if k != "steps"} for t in trs]))
        allp = [frozenset()] + [frozenset({x}) for x in range(1, N + 1)]
        cfg = tlc.make_cfg(d / "t.cfg", spec="TSpec", constants=pm_consts(T, N, allp, range(0, N + 2)),
                           constraints=["Reach"], postcondition="Report", invariants=["Order", "OneOutstanding",
                                                                                        "ReadAhead"])
        res = tlc.run("ParallelMap_Trace", cfg, workers=1, coverage=False, env={"TRACE_FILE": str(tf)},
                      dfs_queue=True)
        reached = {p[1]: (p[2], p[3]) for p in res.prints if isinstance(p, tuple) and p and p[0] == "REACHED"}
        if len(reached) != len(trs):
            raise MachineryError(f"trace validation reported {len(reached)} of {len(trs)}\n{res.out[-2000:]}")
        for i, t in enumerate(trs):
            got, want = reached[i + 1]
            if got == want:
                n_ok += 1
            else:
                n_rej += 1
                ctx.add_drift(f"T={T} N={N} panics={t['panics']} drop={t['drop']}: log leaves ParallelMap_Trace after "
                              f"{got - 1} of {want - 1} events (next {t['events'][got - 1] if got - 1 < len(t['events']) else None})",
                              {"steps": t["steps"], "events": t["events"][:got + 1]})
    ctx.cov["traces_validated_against_impl"] = n_ok
    ctx.cov["traces_rejected"] = n_rej
    ctx.log(f"{n_plans} TLC completion orders imposed on the real parallel_map; {n_ok} event logs accepted by "
            f"ParallelMap_Trace, {n_rej} rejected")

    # ------------------------------------------------------------------ 4. Python level
    tasks = []
    comps = ["", "LZ4", "GZIP", "ZLIB"]
    for i, nsh in enumerate(range(1, 7)):
        for ci, comp in enumerate(comps):
            if q and (i + ci) % 2:
                continue
            tasks.append({"compression": comp, "nshards": nsh, "eps": 1 + (i + ci) % 3,
                          "threads": [1, 2, 3, 8] if q else [1, 2, 3, 4, 5, 8],
                          "prefixes": [1, 2] if q else [1, 2, 3, 5], "layout": i + ci})
    # two datasets (6 shards, uncompressed and LZ4) are also read by a consumer that pauses for 6 s (T: 6 s and 35 s)
    for t in tasks:
        if t["nshards"] == 6 and t["compression"] in ("", "LZ4", "GZIP"):
            t["pause"] = 6 if (q or t["compression"] != "") else 35
    try:
        outs = H.run_histories(tasks, fn=python_level)
    finally:
        H.shutdown_pool()
    runs = 0
    for t, o in zip(tasks, outs):
        if o["error"]:
            raise MachineryError(o["error"])
        runs += o["runs"]
        for kind, what in o["problems"]:
            ctx.violation(f"C15|kind=python-{kind}", what, {"task": t})
        if o["sample"] and runs < 200:
            ctx.sample({"kind": "rust vs python reader", **o["sample"]})
    ctx.cov["python_level_comparisons"] = runs
    ctx.log(f"{runs} Rust-vs-Python reader comparisons on {len(tasks)} datasets")


def replay(ctx: Ctx, body: dict) -> None:
    w = body["witness"]
    rustext.build()
    ctx.cov.update({"states": 1, "transitions": 1, "traces_validated_against_impl": 0})
    if "steps" in w:
        rc, log = run_harness(w["T"], w["N"], w["steps"])
        for kind, what in judge_log(log, w["T"], w["N"], w["panics"], w["drop"]):
            ctx.violation(f"C15|kind={kind}|panic={'yes' if w['panics'] else 'no'}", what, w)
    else:
        o = python_level(w["task"])
        for kind, what in o["problems"]:
            ctx.violation(f"C15|kind=python-{kind}", what, w)
