--------------------------- MODULE HashStream_Eval ---------------------------
(* Judges recorded executions of the real read loop: the sequence of chunk sizes returned by readinto and   *)
(* the sizes each hash object was updated with must be a behaviour of HashStream for that file length.     *)
EXTENDS HashStream, Json, IOUtils, TLCExt, SequencesExt
VARIABLE idx
Obs == JsonDeserialize(IOEnv.OBS_FILE)    \* [len, cap, reads: Seq(Nat), updates: Seq(Seq(Nat)), nalgs]
EInit == idx \in 1..Len(Obs) /\ Init
ENext == FALSE /\ UNCHANGED <<vars, idx>>
ESpec == EInit /\ [][ENext]_<<vars, idx>>
Sum(s) == FoldLeft(LAMBDA a, b : a + b, 0, s)
IsBehaviour ==
    LET o == Obs[idx] IN
    /\ Sum(o.reads) = o.len
    /\ \A i \in 1..Len(o.reads) : o.reads[i] >= 1 /\ o.reads[i] <= o.cap
    /\ Len(o.updates) = o.nalgs
    /\ \A h \in 1..Len(o.updates) : o.updates[h] = o.reads
Judge == IsBehaviour \/ PrintT(<<"NOT-A-BEHAVIOUR", idx>>)
===============================================================================
