-------------------------------- MODULE EpochLoop --------------------------------
(* Repeating iteration (C19).  Python interfaces: the shard-path list is wrapped in itertools.cycle (and, when  *)
(* shuffling, a shard-level shuffle buffer as large as the list) - dataset_iteration.py:418-475.  Rust          *)
(* interface: RustGenerator.__call__ (:874-912) runs _single_iter in a loop; every epoch builds a fresh finite   *)
(* iterator over a fresh (shuffled or not) list of the shard paths and releases it at the end of the epoch.      *)
(* Shards are 1..S; this module models the stream of shard indices handed to the decoders.                      *)
EXTENDS Naturals, Sequences, FiniteSets, TLC

CONSTANTS S,          \* number of selected shards (>= 1: an empty selection is an error)
          Shuffled,   \* shard-level shuffling on / off
          Rust,       \* TRUE: epoch loop of RustGenerator; FALSE: itertools.cycle
          MaxEpochs,  \* exploration bound
          NoCycle     \* TRUE: the path list is not cycled (stream ends after one epoch) - sanity only

VARIABLES epoch, order, pos, stream, live, pc
vars == <<epoch, order, pos, stream, live, pc>>
Perms == {f \in [1..S -> 1..S] : \A i, j \in 1..S : i # j => f[i] # f[j]}
Ident == [i \in 1..S |-> i]

Init == /\ epoch = 1 /\ pos = 0 /\ stream = <<>> /\ live = 0 /\ pc = "begin"
        /\ order = Ident
\* Rust: a new RustIter (threads, file handles) per epoch over a freshly drawn order; Python: the cycle restarts
BeginEpoch ==
    /\ pc = "begin" /\ epoch <= MaxEpochs
    /\ order' \in (IF Shuffled /\ Rust THEN Perms ELSE {Ident})
    /\ live' = IF Rust THEN live + 1 ELSE live
    /\ pos' = 0 /\ pc' = "run" /\ UNCHANGED <<epoch, stream>>
Emit ==
    /\ pc = "run" /\ pos < S
    /\ stream' = Append(stream, order[pos + 1]) /\ pos' = pos + 1
    /\ UNCHANGED <<epoch, order, live, pc>>
EndEpoch ==
    /\ pc = "run" /\ pos = S
    /\ live' = IF Rust THEN live - 1 ELSE live                   \* __exit__ releases the Rust iterator
    /\ epoch' = epoch + 1
    /\ pc' = IF NoCycle THEN "ended" ELSE "begin"
    /\ UNCHANGED <<order, pos, stream>>
Next == BeginEpoch \/ Emit \/ EndEpoch \/ (pc \in {"ended"} /\ UNCHANGED vars) \/ (epoch > MaxEpochs /\ UNCHANGED vars)
Spec == Init /\ [][Next]_vars

\* the stream never ends: within the explored epochs the machine is never in a final state
NeverEnds == pc # "ended"
\* unshuffled: the one-pass sequence repeated periodically
Periodic == ~Shuffled => \A i \in 1..Len(stream) : stream[i] = ((i - 1) % S) + 1
\* every completed epoch block is a permutation of the selected shards
EpochsArePermutations ==
    \A b \in 0..((Len(stream) \div S) - 1) : {stream[b * S + i] : i \in 1..S} = 1..S
\* at most one native iterator is alive at a time (memory is released at the end of every epoch)
OneLiveIterator == live <= 1
===============================================================================
