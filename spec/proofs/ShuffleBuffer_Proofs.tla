------------------------- MODULE ShuffleBuffer_Proofs -------------------------
(* TLAPS proof that the read-ahead bound of itertools.shuffle_buffer (C14) holds for EVERY source length N,  *)
(* every buffer size B >= 1, finite and cyclic sources - the unbounded counterpart of what TLC checks for    *)
(* N <= 6, B <= 3.  The inductive invariant is a counting argument: every pulled element is in the buffer,   *)
(* already yielded, or the one element held in `newel` between LoopPull and LoopYield.                       *)
EXTENDS ShuffleBuffer, SequenceTheorems, TLAPS

ASSUME ConstAssump == N \in Nat /\ B \in Nat /\ B >= 1 /\ Cyclic \in BOOLEAN

ElemSet == {Elem(k) : k \in Nat} \cup {0}

Inv ==
    /\ pulled \in Nat
    /\ buf \in Seq(ElemSet)
    /\ out \in Seq(ElemSet)
    /\ newel \in ElemSet
    /\ pc \in {"fill", "pull", "yield", "flush", "done"}
    /\ Len(buf) <= B
    /\ pulled = Len(out) + Len(buf) + (IF pc = "yield" THEN 1 ELSE 0)
    /\ pc \in {"pull", "yield"} => Len(buf) = B

LEMMA InitInv == Init => Inv
  BY ConstAssump, EmptySeq DEF Init, Inv, ElemSet

LEMMA RemoveAtType ==
    ASSUME NEW S, NEW s \in Seq(S), NEW i \in 1..Len(s)
    PROVE  LET t == [j \in 1..Len(s) - 1 |-> IF j < i THEN s[j] ELSE s[j + 1]]
           IN  t \in Seq(S) /\ Len(t) = Len(s) - 1
  <1> DEFINE t == [j \in 1..Len(s) - 1 |-> IF j < i THEN s[j] ELSE s[j + 1]]
  <1>1. Len(s) \in Nat /\ Len(s) >= 1
    BY LenProperties
  <1>2. Len(s) - 1 \in Nat
    BY <1>1
  <1>3. \A j \in 1..Len(s) - 1 : (IF j < i THEN s[j] ELSE s[j + 1]) \in S
    BY <1>1, ElementOfSeq
  <1>4. t \in Seq(S) /\ Len(t) = Len(s) - 1
    BY <1>2, <1>3, IsASeq
  <1> QED BY <1>4

LEMMA NextInv == Inv /\ [Next]_vars => Inv'
  <1> SUFFICES ASSUME Inv, [Next]_vars PROVE Inv'
    OBVIOUS
  <1> USE ConstAssump
  <1>e. \A k \in Nat : Elem(k) \in ElemSet
    BY DEF ElemSet
  <1>1. CASE FillPull
    <2>1. Elem(pulled + 1) \in ElemSet
      BY <1>e DEF Inv
    <2>2. buf' \in Seq(ElemSet) /\ Len(buf') = Len(buf) + 1
      BY <1>1, <2>1, AppendProperties DEF FillPull, Inv
    <2> QED BY <1>1, <2>2, LenProperties DEF FillPull, Inv
  <1>2. CASE FillEnd
    BY <1>2, LenProperties DEF FillEnd, Inv
  <1>3. CASE LoopPull
    <2>1. CASE HasMore
      <3>1. Elem(pulled + 1) \in ElemSet
        BY <1>e DEF Inv
      <3> QED BY <1>3, <2>1, <3>1, LenProperties DEF LoopPull, Inv
    <2>2. CASE ~HasMore
      BY <1>3, <2>2, LenProperties DEF LoopPull, Inv
    <2> QED BY <2>1, <2>2
  <1>4. ASSUME NEW i \in 1..B, LoopYield(i) PROVE Inv'
    <2>1. i \in 1..Len(buf) /\ buf[i] \in ElemSet
      BY <1>4, ElementOfSeq DEF LoopYield, Inv
    <2>2. out' \in Seq(ElemSet) /\ Len(out') = Len(out) + 1
      BY <1>4, <2>1, AppendProperties DEF LoopYield, Inv
    <2>3. buf' \in Seq(ElemSet) /\ Len(buf') = Len(buf)
      BY <1>4, <2>1, ExceptSeq DEF LoopYield, Inv
    <2> QED BY <1>4, <2>2, <2>3, LenProperties DEF LoopYield, Inv
  <1>5. ASSUME NEW i \in 1..B, Flush(i) PROVE Inv'
    <2>1. i \in 1..Len(buf) /\ buf[i] \in ElemSet
      BY <1>5, ElementOfSeq DEF Flush, Inv
    <2>2. out' \in Seq(ElemSet) /\ Len(out') = Len(out) + 1
      BY <1>5, <2>1, AppendProperties DEF Flush, Inv
    <2>3. buf' \in Seq(ElemSet) /\ Len(buf') = Len(buf) - 1
      BY <1>5, <2>1, RemoveAtType DEF Flush, Inv
    <2> QED BY <1>5, <2>2, <2>3, LenProperties DEF Flush, Inv
  <1>6. CASE Done
    BY <1>6, LenProperties DEF Done, Inv
  <1>7. CASE Finished
    BY <1>7 DEF Finished, Inv, vars
  <1>8. CASE UNCHANGED vars
    BY <1>8 DEF Inv, vars
  <1> QED BY <1>1, <1>2, <1>3, <1>4, <1>5, <1>6, <1>7, <1>8 DEF Next

LEMMA InvReadAhead == Inv => ReadAhead
  BY ConstAssump, LenProperties DEF Inv, ReadAhead

THEOREM ReadAheadForAllSources == Spec => []ReadAhead
  <1>1. Spec => []Inv
    BY InitInv, NextInv, PTL DEF Spec
  <1> QED BY <1>1, InvReadAhead, PTL
===============================================================================
