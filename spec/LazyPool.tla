------------------------------- MODULE LazyPool -------------------------------
(***************************************************************************)
(* The lazy thread pool of sedpack (src/sedpack/io/itertools/lazy_pool.py) *)
(* at queue-operation granularity: one action per queue.put / queue.get,   *)
(* per application of the mapped function and per yield to the consumer.   *)
(*                                                                         *)
(* One consumer thread (the generator body of LazyPool.imap_unordered plus *)
(* the caller that iterates it inside `with LazyPool(...)`) and T          *)
(* Collector threads per round.  A "round" is one imap_unordered call on   *)
(* the same pool object (pool reuse); each round has its own pair of       *)
(* queues exactly as the code creates fresh queue.Queue objects, and the   *)
(* Collectors of an earlier round may still be draining their queue while  *)
(* the next round runs.                                                    *)
(*                                                                         *)
(* Items are 1..N, the StopSentinel is 0, the failure of item x is -x.     *)
(***************************************************************************)
EXTENDS Integers, Sequences, FiniteSets

CONSTANTS T,             \* worker threads                      lazy_pool.py:58
          N,             \* length of the input iterable
          Fails,         \* items on which the mapped function raises
          AbandonAfter,  \* consumer leaves the loop after this many results (never: N+1)
          Prefill,       \* number of initial puts (2T+2 in today's code, :138-143)
          Rounds,        \* how many times the pool is used in a row
          Defect         \* TRUE: a raising function kills the Collector silently (pre-fix code)

Round == 1..Rounds
W == Round \X (1..T)
SENT == 0

VARIABLES toProc,    \* [Round -> Seq(Int)]   self._to_process of that round
          results,   \* [Round -> Seq(Int)]   self._results of that round
          wpc,       \* [W -> {"idle","get","apply","put","fwd","exit","dead"}]
          witem,     \* [W -> Int]            element held by the worker
          cpc,       \* consumer program counter
          rnd,       \* current round
          k,         \* prefill counter
          rk,        \* sentinels put so far by finish_and_reset
          fed,       \* elements pulled from iterator_with_stops in this round
          active,    \* self._active_threads
          yielded,   \* [Round -> Seq(Int)]   results handed to the caller, in order
          cur,       \* result in hand between get and yield
          outcome    \* [Round -> {"running","done","left","raised"}]
vars == <<toProc, results, wpc, witem, cpc, rnd, k, rk, fed, active, yielded, cur, outcome>>

NextElem == IF fed < N THEN fed + 1 ELSE SENT      \* chain(iterable, cycle([StopSentinel()]))
Ws(r) == {w \in W : w[1] = r}

Init == /\ toProc = [r \in Round |-> <<>>] /\ results = [r \in Round |-> <<>>]
        /\ wpc = [w \in W |-> IF w[1] = 1 THEN "get" ELSE "idle"]     \* round-1 Collectors started
        /\ witem = [w \in W |-> 0]
        /\ cpc = "prefill" /\ rnd = 1 /\ k = 0 /\ rk = 0 /\ fed = 0 /\ active = T
        /\ yielded = [r \in Round |-> <<>>] /\ cur = 0
        /\ outcome = [r \in Round |-> "running"]

(* ---- consumer -------------------------------------------------------------------------- *)
LoopPc == IF active > 0 THEN "get" ELSE "reset"

\* :138-143  for i, element in enumerate(iterator_with_stops): put(element); if i > 2T: break
CPrefillPut ==
    /\ cpc = "prefill"
    /\ toProc' = [toProc EXCEPT ![rnd] = Append(@, NextElem)]
    /\ fed' = fed + 1 /\ k' = k + 1
    /\ cpc' = IF k + 1 = Prefill THEN LoopPc ELSE "prefill"
    /\ UNCHANGED <<results, wpc, witem, rnd, rk, active, yielded, cur, outcome>>

\* :146-150  next_result = self._results.get(); sentinel => active -= 1; continue
CGet ==
    /\ cpc = "get" /\ results[rnd] # <<>>
    /\ LET r == Head(results[rnd]) IN
        /\ results' = [results EXCEPT ![rnd] = Tail(@)]
        /\ IF r = SENT
           THEN /\ active' = active - 1 /\ cur' = cur
                /\ cpc' = IF active - 1 > 0 THEN "get" ELSE "reset"
           ELSE IF r < 0
           THEN /\ active' = active /\ cur' = r /\ cpc' = "raise"
           ELSE /\ active' = active /\ cur' = r /\ cpc' = "putnext"
    /\ UNCHANGED <<toProc, wpc, witem, rnd, k, rk, fed, yielded, outcome>>

\* :155-159  self._to_process.put(next(iterator_with_stops))
CPutNext ==
    /\ cpc = "putnext"
    /\ toProc' = [toProc EXCEPT ![rnd] = Append(@, NextElem)]
    /\ fed' = fed + 1 /\ cpc' = "yield"
    /\ UNCHANGED <<results, wpc, witem, rnd, k, rk, active, yielded, cur, outcome>>

\* :160 yield next_result ; the caller either comes back for more or abandons the loop
CYield ==
    /\ cpc = "yield"
    /\ yielded' = [yielded EXCEPT ![rnd] = Append(@, cur)]
    /\ cpc' = IF Len(yielded[rnd]) + 1 = AbandonAfter THEN "abandon" ELSE LoopPc
    /\ UNCHANGED <<toProc, results, wpc, witem, rnd, k, rk, fed, active, cur, outcome>>

\* finish_and_reset (:75-87): active := 0, then T puts of a StopSentinel, one at a time.
\* Reached from the normal end of the loop ("reset"), from __exit__ after the caller abandoned the
\* generator ("abandon") and (repaired code) before re-raising a worker failure ("raise").
ResetPc == {"reset", "abandon", "raise"}
OutcomeOf(pc) == CASE pc = "reset" -> "done" [] pc = "abandon" -> "left" [] pc = "raise" -> "raised"
CResetPut ==
    /\ cpc \in ResetPc
    /\ toProc' = [toProc EXCEPT ![rnd] = Append(@, SENT)]
    /\ active' = 0
    /\ IF rk + 1 = T
       THEN /\ rk' = 0 /\ cpc' = "between"
            /\ outcome' = [outcome EXCEPT ![rnd] = OutcomeOf(cpc)]
       ELSE /\ rk' = rk + 1 /\ cpc' = cpc /\ outcome' = outcome
    /\ UNCHANGED <<results, wpc, witem, rnd, k, fed, yielded, cur>>

\* the caller uses the pool again: fresh queues, fresh Collectors (:115-135)
CNextRound ==
    /\ cpc = "between" /\ rnd < Rounds
    /\ rnd' = rnd + 1 /\ cpc' = "prefill" /\ k' = 0 /\ fed' = 0 /\ active' = T /\ cur' = 0
    /\ wpc' = [w \in W |-> IF w[1] = rnd + 1 THEN "get" ELSE wpc[w]]
    /\ UNCHANGED <<toProc, results, witem, rk, yielded, outcome>>

(* ---- Collector threads (:198-219) ------------------------------------------------------ *)
WGet(w) ==
    /\ wpc[w] = "get" /\ toProc[w[1]] # <<>>
    /\ LET x == Head(toProc[w[1]]) IN
        /\ toProc' = [toProc EXCEPT ![w[1]] = Tail(@)]
        /\ witem' = [witem EXCEPT ![w] = x]
        /\ wpc' = [wpc EXCEPT ![w] = IF x = SENT THEN "fwd" ELSE "apply"]
    /\ UNCHANGED <<results, cpc, rnd, k, rk, fed, active, yielded, cur, outcome>>

\* self.func(element): returns, or raises
WApply(w) ==
    /\ wpc[w] = "apply"
    /\ IF witem[w] \in Fails
       THEN IF Defect
            THEN /\ wpc' = [wpc EXCEPT ![w] = "dead"] /\ witem' = witem     \* thread dies, nothing is put
            ELSE /\ wpc' = [wpc EXCEPT ![w] = "put"] /\ witem' = [witem EXCEPT ![w] = -witem[w]]
       ELSE /\ wpc' = [wpc EXCEPT ![w] = "put"] /\ witem' = witem
    /\ UNCHANGED <<toProc, results, cpc, rnd, k, rk, fed, active, yielded, cur, outcome>>

WPut(w) ==
    /\ wpc[w] = "put"
    /\ results' = [results EXCEPT ![w[1]] = Append(@, witem[w])]
    /\ wpc' = [wpc EXCEPT ![w] = "get"]
    /\ UNCHANGED <<toProc, witem, cpc, rnd, k, rk, fed, active, yielded, cur, outcome>>

\* a StopSentinel is forwarded to the results queue and the thread returns
WFwd(w) ==
    /\ wpc[w] = "fwd"
    /\ results' = [results EXCEPT ![w[1]] = Append(@, SENT)]
    /\ wpc' = [wpc EXCEPT ![w] = "exit"]
    /\ UNCHANGED <<toProc, witem, cpc, rnd, k, rk, fed, active, yielded, cur, outcome>>

Consumer == CPrefillPut \/ CGet \/ CPutNext \/ CYield \/ CResetPut \/ CNextRound
Worker(w) == WGet(w) \/ WApply(w) \/ WPut(w) \/ WFwd(w)

AllUsed == cpc = "between" /\ rnd = Rounds
WorkersGone == \A w \in W : wpc[w] \in {"exit", "dead"}
Finished == AllUsed /\ WorkersGone /\ UNCHANGED vars

Next == Consumer \/ (\E w \in W : Worker(w)) \/ Finished
Spec == Init /\ [][Next]_vars
FairSpec == Spec /\ WF_vars(Consumer) /\ \A w \in W : WF_vars(Worker(w))

(* ---- properties ------------------------------------------------------------------------ *)
SeqToSet(s) == {s[i] : i \in 1..Len(s)}
NoDup(s) == \A i, j \in 1..Len(s) : i # j => s[i] # s[j]

TypeOK == /\ \A r \in Round : /\ toProc[r] \in Seq(0..N) /\ results[r] \in Seq(-N..N)
          /\ active \in 0..T /\ fed >= 0 /\ rnd \in Round

\* one result per input, as a multiset, and then the pass ends  (C13, C02)
ExactlyOnce == \A r \in Round :
    /\ NoDup(yielded[r]) /\ SeqToSet(yielded[r]) \subseteq 1..N
    /\ outcome[r] = "done" => SeqToSet(yielded[r]) = 1..N

\* a pass that ends normally has not lost anything, in particular not after a failure (C07)
NoSilentLoss == \A r \in Round : outcome[r] = "done" => Fails = {}

\* read-ahead is bounded by the prefill, never by N   (C14)
InFlightBound == fed - Len(yielded[rnd]) <= Prefill + 1
SourcePulled == IF fed < N THEN fed ELSE N
SourceReadAhead == SourcePulled - Len(yielded[rnd]) <= Prefill + 1

\* never more sentinels forwarded than workers; the active counter never goes negative
Counting == /\ active >= 0
            /\ \A r \in Round : Cardinality({w \in Ws(r) : wpc[w] = "exit"}) <= T

\* liveness (checked under FairSpec): every use of the pool ends, every Collector terminates
Termination == <>(AllUsed /\ WorkersGone)
\* a failing input that the consumer does not walk away from surfaces as an exception
FaultSurfaces == (Fails # {} /\ AbandonAfter > N) => <>(outcome[1] = "raised")

===============================================================================
