"""Real-dataset side of the Dataset.tla binding: building datasets, executing API-level histories taken
from TLC behaviours, direct (non-sedpack-iteration) decoders, projection of a directory onto the abstract
`files` value of Dataset.tla, canonical naming so that specification states and projected states compare."""
from __future__ import annotations

import bz2
import gzip
import hashlib
import json
import lzma
import os
import tempfile
import re
import shutil
import types
from pathlib import Path

import numpy as np

FORMAT_COMPRESSIONS = {
    "fb": ["", "LZ4", "GZIP", "ZLIB", "BZ2", "LZMA", "ZSTD"],
    "npz": ["", "ZIP"],
    "tfrec": ["", "GZIP", "ZLIB"],
}
# shard-level metadata values are nested on purpose (a list inside the dict): a writer that keeps a shallow copy of
# the caller's object would still alias the inner list
# (every non-empty metadata object carries a tuple: a Python value whose JSON form - a list - differs from it; "does the
# metadata change" must be decided on what the caller passes, not on what a serialisation round trip makes of it)
MD = {"None": None, "A": {"k": ["A"], "w": (0, 1)}, "B": {"k": ["B"], "w": (0, 1)}}
# flat values for the checks of the per-metadata limit, which is documented as best effort ("hashed as a tuple of sorted
# items") and raises TypeError for unhashable (nested) values
MD_FLAT = {"None": None, "A": {"k": "A"}, "B": {"k": "B"}}
EXT = (".fb", ".npz", ".tfrec")


def payload(i: int) -> np.ndarray:
    """Pseudo-random body of example i (so that torn / swapped content is visible)."""
    r = np.random.RandomState(i * 7919 + 13)
    return r.uniform(-1e3, 1e3, size=(3,)).astype(np.float32)


def example(i: int, kind: str = "good", fmt: str = "") -> dict:
    v = {"id": np.array([i], dtype=np.int64), "x": payload(i)}
    if kind == "bad" and fmt == "fb" and i % 2 == 0:
        # FlatBuffers enforces the dtype: a value that cannot be cast safely (float64 into float32) on the SECOND
        # attribute is rejected inside the format writer, after the first attribute has already been serialised
        v["x"] = payload(i).astype(np.float64) * 1.0000001
    elif kind == "bad":  # shape violation: must be rejected by every format
        v["x"] = np.concatenate([payload(i), np.zeros(1, np.float32)])
    elif kind == "badlate":  # passes the shape check, rejected by the TFRecord encoder after the file was opened
        v["unexpected"] = np.zeros(1, np.float32)
    return v


def structure(fmt: str, compression: str = "", eps: int = 2, hashes=("sha256",)):
    from sedpack.io.metadata import Attribute, DatasetStructure
    return DatasetStructure(
        saved_data_description=[
            Attribute(name="id", dtype="int64", shape=(1,)),
            Attribute(name="x", dtype="float32", shape=(3,)),
        ],
        compression=compression,
        examples_per_shard=eps,
        shard_file_type=fmt,
        hash_checksum_algorithms=tuple(hashes),
    )


# ------------------------------------------------------------------------------------------------
# direct decoders (never through sedpack's iteration layer)


def _decompress(data: bytes, compression: str) -> bytes:
    if compression == "":
        return data
    if compression in ("GZIP", "ZLIB"):
        return gzip.decompress(data)
    if compression == "BZ2":
        return bz2.decompress(data)
    if compression == "LZMA":
        return lzma.decompress(data)
    if compression == "LZ4":
        import lz4.frame
        return lz4.frame.decompress(data)
    if compression == "ZSTD":
        import zstandard
        return zstandard.ZstdDecompressor().decompress(data)
    raise ValueError(compression)


def decoder_rejects(path: Path, fmt: str, compression: str) -> bool:
    """Do the codec / third-party decoder that the pure-Python readers rely on RAISE on these bytes? (Weaker than
    `decode_shard(...) is None`, which also verifies the payload: a buffer of NUL bytes, for instance, is a valid
    FlatBuffers shard with no examples as far as the Python FlatBuffers accessors are concerned.)"""
    try:
        if fmt == "fb":
            import sedpack.io.flatbuffer.shardfile.Shard as fbShard
            raw = _decompress(path.read_bytes(), compression)
            shard = fbShard.Shard.GetRootAs(raw, 0)
            for i in range(shard.ExamplesLength()):
                ex = shard.Examples(i)
                for j in range(ex.AttributesLength()):
                    bytes(ex.Attributes(j).AttributeBytesAsNumpy())
        elif fmt == "npz":
            with np.load(path) as z:
                for k in z.files:
                    z[k]  # pylint: disable=pointless-statement
        elif fmt == "tfrec":
            import tensorflow as tf
            feats = {"id": tf.io.FixedLenFeature((1,), tf.int64), "x": tf.io.FixedLenFeature((3,), tf.float32)}
            for rec in tf.data.TFRecordDataset(str(path), compression_type=compression):
                tf.io.parse_single_example(rec, feats)
        return False
    except Exception:  # pylint: disable=broad-except
        return True


def decode_shard(path: Path, fmt: str, compression: str):
    """Returns the list of example ids stored in the shard file (payload verified), or None when the file is
    not decodable (torn / garbage)."""
    try:
        ids = []
        if fmt == "fb":
            import sedpack.io.flatbuffer.shardfile.Shard as fbShard
            raw = _decompress(path.read_bytes(), compression)
            if len(raw) < 8:
                return None
            import flatbuffers  # noqa: F401  pylint: disable=unused-import
            shard = fbShard.Shard.GetRootAs(raw, 0)
            n = shard.ExamplesLength()
            for i in range(n):
                ex = shard.Examples(i)
                if ex.AttributesLength() != 2:
                    return None
                a0 = bytes(ex.Attributes(0).AttributeBytesAsNumpy())
                a1 = bytes(ex.Attributes(1).AttributeBytesAsNumpy())
                idv = int(np.frombuffer(a0, dtype="<i8")[0])
                x = np.frombuffer(a1, dtype="<f4")
                if x.shape != (3,) or not np.array_equal(x, payload(idv)):
                    return None
                ids.append(idv)
            if n == 0:
                return None
            return ids
        if fmt == "npz":
            with np.load(path) as z:
                idc = z["id"]
                xc = z["x"]
            if idc.ndim != 2 or xc.shape != (idc.shape[0], 3):
                return None
            for row, x in zip(idc, xc):
                if not np.array_equal(x, payload(int(row[0]))):
                    return None
                ids.append(int(row[0]))
            return ids
        if fmt == "tfrec":
            import tensorflow as tf
            feats = {"id": tf.io.FixedLenFeature((1,), tf.int64), "x": tf.io.FixedLenFeature((3,), tf.float32)}
            for rec in tf.data.TFRecordDataset(str(path), compression_type=compression):
                ex = tf.io.parse_single_example(rec, feats)
                idv = int(ex["id"].numpy()[0])
                if not np.array_equal(ex["x"].numpy(), payload(idv)):
                    return None
                ids.append(idv)
            return ids
    except Exception:  # pylint: disable=broad-except
        return None
    raise ValueError(fmt)


def hexdigests(data: bytes, algos) -> tuple:
    import xxhash
    out = []
    for a in algos:
        if a == "xxh32":
            out.append(xxhash.xxh32(data).hexdigest())
        elif a == "xxh64":
            out.append(xxhash.xxh64(data).hexdigest())
        elif a == "xxh128":
            out.append(xxhash.xxh128(data).hexdigest())
        else:
            out.append(hashlib.new(a, data).hexdigest())
    return tuple(out)


# ------------------------------------------------------------------------------------------------
# projection


TORN = {"kind": "torn"}
UNKNOWN = {"kind": "unknown"}


class Projector:
    """Projects a dataset directory onto the abstract `files` value. Remembers every file version it has seen
    (digest -> abstract content) so that recorded digests can be resolved to the content they denote."""

    def __init__(self, fmt: str, compression: str, algos):
        self.fmt = fmt
        self.compression = compression
        self.algos = tuple(algos)
        self.versions: dict = {}

    def resolve(self, hexes) -> object:
        hexes = tuple(hexes)
        if not self.algos and not hexes:
            return []
        return self.versions.get(hexes, UNKNOWN)

    def project(self, root: Path) -> dict:
        """-> {path tuple: abstract content}; shard names are the real file names (see canonical())."""
        root = Path(root)
        shards, lists, info = {}, {}, None
        raw = {}
        for dp, _dn, fns in os.walk(root):
            for fn in fns:
                full = Path(dp) / fn
                rel = full.relative_to(root).parts
                if fn.startswith("update_"):
                    continue
                try:
                    raw[rel] = full.read_bytes()
                except OSError:
                    continue
                if fn == "dataset_info.json" and len(rel) == 1:
                    info = rel
                elif fn == "shards_list.json":
                    lists[rel] = None
                elif fn.endswith(EXT):
                    shards[rel] = None
        files = {}
        for rel in shards:
            ids = decode_shard(root / Path(*rel), self.fmt, self.compression)
            c = TORN if ids is None else {"kind": "shard", "ex": ids}
            files[rel] = c
            if self.algos:
                self.versions[hexdigests(raw[rel], self.algos)] = c
        for rel in sorted(lists, key=lambda r: -len(r)):
            c = self._abstract_list(raw[rel])
            files[rel[:-1] + ("list",)] = c
            if self.algos and c is not TORN:
                self.versions[hexdigests(raw[rel], self.algos)] = c
        if info is not None:
            files[("info",)] = self._abstract_info(raw[info])
        return files

    def _path(self, s: str) -> tuple:
        return tuple(Path(s).parts)

    def _abstract_list(self, data: bytes):
        try:
            j = json.loads(data.decode("utf-8"))
            shards = []
            for sh in j.get("shard_files", []):
                fi = sh["file_infos"][0]
                md = sh.get("custom_metadata", {})
                shards.append({"id": list(self._path(fi["file_path"])), "n": sh.get("number_of_examples", 0),
                               "md": md_name(md), "sum": self.resolve(fi.get("hash_checksums", ()))})
            children = []
            for ch in j.get("children_shard_lists", []):
                fi = ch["shard_list_info_file"]
                children.append({"dir": list(self._path(fi["file_path"])[:-1]), "n": ch.get("number_of_examples", 0),
                                 "nsh": ch.get("number_of_shards", 0),
                                 "sum": self.resolve(fi.get("hash_checksums", ()))})
            return {"kind": "list", "n": j.get("number_of_examples", 0), "shards": shards, "children": children}
        except Exception:  # pylint: disable=broad-except
            return TORN

    def _abstract_info(self, data: bytes):
        try:
            j = json.loads(data.decode("utf-8"))
            return {"kind": "info", "splits": self.table(j.get("splits", {}))}
        except Exception:  # pylint: disable=broad-except
            return TORN

    def table(self, splits: dict) -> dict:
        out = {}
        for s, e in splits.items():
            fi = e["shard_list_info_file"]
            out[s] = {"n": e.get("number_of_examples", 0), "nsh": e.get("number_of_shards", 0),
                      "sum": self.resolve(fi.get("hash_checksums", ()))}
        return out

    def mem_of(self, handle) -> dict:
        j = json.loads(handle._dataset_info.model_dump_json())  # pylint: disable=protected-access
        return self.table(j.get("splits", {}))


def md_name(md) -> str:
    if not md:
        return "None"
    if isinstance(md, dict) and set(md) - {"w"} == {"k"}:
        v = md["k"]
        if isinstance(v, (list, tuple)) and len(v) == 1:
            v = v[0]
        if v in ("A", "B"):
            return v
    return "X:" + json.dumps(md, sort_keys=True)


# ------------------------------------------------------------------------------------------------
# canonical shard names (both for projected states and for specification states)


def is_shard_path(p) -> bool:
    last = p[-1]
    return bool(re.fullmatch(r"sh\d+", last)) or last.endswith(EXT)


def canonical(files: dict, extra=()):
    """Rename shard paths by content: <dir..., "sh<first example id>"> (empty / torn files: "shE<k>").
    Returns (new files, mapping). `extra`: other values (mem table, ...) renamed alongside."""
    mapping = {}
    empties = {}
    for p, c in files.items():
        if not is_shard_path(p):
            continue
        if isinstance(c, dict) and c.get("kind") == "shard" and c.get("ex"):
            mapping[tuple(p)] = tuple(p[:-1]) + (f"sh{min(c['ex'])}",)
        else:
            empties.setdefault(tuple(p[:-1]), []).append(p)
    for d, ps in empties.items():
        ps.sort(key=lambda p: (json.dumps(files[p], sort_keys=True), _natural(p[-1])))
        for k, p in enumerate(ps):
            mapping[tuple(p)] = d + (f"shE{k + 1}",)

    def ren(v):
        if isinstance(v, dict):
            return {k: ren(x) for k, x in v.items()}
        if isinstance(v, (list, tuple)):
            t = tuple(v)
            if t and all(isinstance(x, str) for x in t) and t in mapping:
                return list(mapping[t])
            return [ren(x) for x in v]
        return v

    new = {}
    for p, c in files.items():
        new[mapping.get(tuple(p), tuple(p))] = ren(c)
    return new, [ren(e) for e in extra], mapping


def _natural(s: str):
    m = re.fullmatch(r"sh(\d+)", s)
    return (0, int(m.group(1)), "") if m else (1, 0, s)


def files_to_json(files: dict) -> list:
    return [{"p": list(p), "c": c} for p, c in sorted(files.items())]


def spec_files(st_files) -> dict:
    """`files` variable of a parsed TLC state -> {path tuple: plain content}."""
    from . import tlaval
    out = {}
    for p, c in st_files.items():
        v = tlaval.plain(c)
        if isinstance(v, dict) and v.get("kind") == "info" and v.get("splits") == []:
            v["splits"] = {}
        out[tuple(p)] = v
    return out


def spec_table(mem):
    from . import tlaval
    v = tlaval.plain(mem)
    if v == [] or v == ():
        return {}
    return v


# ------------------------------------------------------------------------------------------------
# uuid shim for the multi-writer directory names


class _NameSeq:

    def __init__(self, names):
        self.names = list(names)
        self.i = 0

    def uuid4(self):
        name = self.names[self.i] if self.i < len(self.names) else f"u{self.i + 1}"
        self.i += 1
        return types.SimpleNamespace(hex=name)


# ------------------------------------------------------------------------------------------------
# executing API-level histories


class SessionFailed(Exception):
    pass


def _feed_writer(dataset_filler, plan):
    """feed_writer of write_multiprocessing: runs one worker's writes; returns [(id, accepted, exc type)]."""
    out = []
    marking = os.environ.get("VERIF_MARK") == "1"
    if marking:
        from .fsrec import mark
        wdir = str(dataset_filler._dataset_filler_context._relative_path_from_split)  # pylint: disable=protected-access
        mark({"ev": "wb", "dir": wdir, "ids": [x[0] for x in plan]})
    with dataset_filler as ctx:
        for (i, split, md, kind) in plan:
            if kind == "raise":
                continue
            if marking:
                mark({"ev": "b", "name": "Write", "id": i, "w": wdir, "split": split, "md": md, "kind": kind})
            try:
                ctx.write_example(values=example(i, kind, os.environ.get("VERIF_FMT", "")), split=split,
                                  custom_metadata=MD[md])
                out.append((i, True, ""))
            except Exception as exc:  # pylint: disable=broad-except
                out.append((i, False, type(exc).__name__))
            if marking:
                mark({"ev": "e", "name": "Write", "id": i, "w": wdir, "acc": out[-1][1]})
        if marking:
            mark({"ev": "wx", "dir": wdir})
    if marking:
        mark({"ev": "we", "dir": wdir})
    if any(item[3] == "raise" for item in plan):
        raise RuntimeError("injected failure of the writer function")
    return out


class Replayer:
    """Executes labels of Dataset.tla behaviours against a real dataset directory."""

    def __init__(self, root: Path, fmt: str, compression: str = "", eps: int = 2, hashes=("sha256",),
                 writer_names=tuple(f"u{i}" for i in range(1, 33)), single_process: bool = True, md_table=None):
        self.root = Path(root)
        self.fmt = fmt
        self.compression = compression
        self.eps = eps
        self.hashes = tuple(hashes)
        self.single_process = single_process
        self.md_table = md_table if md_table is not None else MD
        self.proj = Projector(fmt, compression, self.hashes)
        self.ds = None
        self.filler = None
        self.ctx = None
        self.multi = None
        self.wlog: list[dict] = []
        self.done: list[int] = []
        self.nsess = 0
        self.next_ex = 1
        self.sess_of = {}
        self.caller_md = {"k": ["A"], "w": (0, 1)}
        self.names = _NameSeq(writer_names)
        self.problems: list[tuple[str, str]] = []  # (kind, description): behaviour the specification forbids
        import sedpack.io.dataset_writing as dw
        self._dw = dw
        # scripted writer-directory names; if the module no longer has the name `uuid` the replay simply runs with
        # whatever names the code chooses (specification-state comparison then degrades to drift)
        self._saved_uuid = getattr(dw, "uuid", None)
        if self._saved_uuid is not None:
            dw.uuid = self.names

    def close(self):
        if hasattr(self, "_cwd0"):
            os.chdir(self._cwd0)
        if self._saved_uuid is not None:
            self._dw.uuid = self._saved_uuid

    # -- individual API steps
    def create(self):
        from sedpack.io import Dataset, Metadata
        self.ds = Dataset.create(self.root, Metadata(description="verif"),
                                 structure(self.fmt, self.compression, self.eps, self.hashes))

    def open(self):
        from sedpack.io import Dataset
        if getattr(self, "open_relative", False):
            # the handle is opened through a cwd-relative path and then used from another working directory. That
            # other directory is the system scratch directory, not the harness' own: a library that resolved the
            # path lazily would otherwise create its files inside /verif
            if not hasattr(self, "_cwd0"):
                self._cwd0 = os.getcwd()
            try:
                os.chdir(self.root.parent)
                self.ds = Dataset(Path(self.root.name))
            finally:
                os.chdir(tempfile.gettempdir())
        else:
            self.ds = Dataset(self.root)

    RELOC_TARGETS = ["moved dir/ünï/d 9", "copies/深い/数据 集", "a/../plain", "x y/z"]

    def relocate(self):
        """Move (odd moves) or copy (even moves) the dataset directory elsewhere; the next Open uses the new place,
        alternately through an absolute and a cwd-relative path."""
        import shutil as _sh
        self.nmoves = getattr(self, "nmoves", 0) + 1
        base = self.root.parent
        target = (self.base0 if hasattr(self, "base0") else base)
        if not hasattr(self, "base0"):
            self.base0 = base
        new = Path(os.path.normpath(self.base0 / f"m{self.nmoves}" / self.RELOC_TARGETS[(self.nmoves - 1) % 4]))
        new.parent.mkdir(parents=True, exist_ok=True)
        if self.nmoves % 2:
            _sh.move(str(self.root), str(new))
        else:
            _sh.copytree(str(self.root), str(new))
        self.root = new
        self.ds = None
        self.open_relative = (self.nmoves % 2 == 0)

    @staticmethod
    def _seed_rngs():
        # what a data-preparation script does at the top of every run "for reproducibility": file names, directory
        # names and every other thing that must be unique across sessions may not come from these generators
        import random as _random
        _random.seed(20240607)
        np.random.seed(20240607)

    def begin_filler(self, d):
        from sedpack.io.dataset_filler import DatasetFiller
        self._seed_rngs()
        self.nsess += 1
        self.filler = DatasetFiller(self.ds, relative_path_from_split=Path(*d) if d else Path("."))
        self.ctx = self.filler.__enter__()

    def _md_arg(self, md):
        if md == "REF":
            return self.caller_md
        return self.md_table[md]

    def write(self, p, split, md, kind):
        i = self.next_ex
        self.next_ex += 1
        eff = md if md != "REF" else self.caller_md["k"][0]
        if p == 0:
            try:
                self.ctx.write_example(values=example(i, kind, self.fmt), split=split,
                                       custom_metadata=self._md_arg(md))
                acc, exc = True, ""
            except Exception as e:  # pylint: disable=broad-except
                acc, exc = False, type(e).__name__
            self.wlog.append({"id": i, "sess": self.nsess, "pid": 0, "split": split, "md": eff, "kind": kind,
                              "acc": acc, "exc": exc})
            self._judge_write(self.wlog[-1])
        else:
            self.multi["plans"].setdefault(p, []).append((i, split, md, kind))

    def _judge_write(self, w):
        if w["kind"] == "good" and not w["acc"]:
            self.problems.append(("good-write-rejected", f"write {w['id']} ({w['split']}, md={w['md']}) with valid "
                                  f"values was rejected with {w['exc']}"))
        if w["kind"] == "bad" and w["acc"]:
            self.problems.append(("bad-shape-accepted", f"write {w['id']} with a shape violation was accepted"))

    def mutate_caller(self):
        self.caller_md["k"][0] = "B" if self.caller_md["k"][0] == "A" else "A"   # in place, inside the nested list

    def exit_filler(self, p):
        if p != 0:
            return
        try:
            self.filler.__exit__(None, None, None)
        except Exception as e:  # pylint: disable=broad-except
            self.filler = self.ctx = None
            raise SessionFailed(f"{type(e).__name__}: {e}") from e
        self.filler = self.ctx = None
        self.done.append(self.nsess)

    def multi_begin(self, k):
        self._seed_rngs()
        self.nsess += 1
        self.multi = {"k": k, "plans": {}}

    def multi_end(self):
        k = self.multi["k"]
        os.environ["VERIF_FMT"] = self.fmt      # inherited by forked workers (feed_writer builds the values there)
        plans = [self.multi["plans"].get(p, []) for p in range(1, k + 1)]
        try:
            results = self.ds.write_multiprocessing(feed_writer=_feed_writer, custom_arguments=[(pl,) for pl in plans],
                                                    single_process=self.single_process)
        except Exception as e:  # pylint: disable=broad-except
            self.multi = None
            raise SessionFailed(f"{type(e).__name__}: {e}") from e
        entries = []
        for p, (pl, res) in enumerate(zip(plans, results), start=1):
            if [r[0] for r in res] != [x[0] for x in pl]:
                self.problems.append(("multi-results-order", f"results of writer {p} do not match its plan: {res}"))
            for (i, split, md, kind), (_i, acc, exc) in zip(pl, res):
                entries.append({"id": i, "sess": self.nsess, "pid": p, "split": split, "md": md, "kind": kind,
                                "acc": acc, "exc": exc})
        entries.sort(key=lambda e: e["id"])
        for e in entries:
            self.wlog.append(e)
            self._judge_write(e)
        self.done.append(self.nsess)
        self.multi = None

    def multi_abort(self, j):
        """The multi-writer call fails: writer j's function raises after its filler was closed."""
        k = self.multi["k"]
        os.environ["VERIF_FMT"] = self.fmt
        plans = [list(self.multi["plans"].get(p, [])) for p in range(1, k + 1)]
        plans[j - 1].append((0, "train", "None", "raise"))
        try:
            self.ds.write_multiprocessing(feed_writer=_feed_writer, custom_arguments=[(pl,) for pl in plans],
                                          single_process=self.single_process)
            self.problems.append(("abort-did-not-raise", "write_multiprocessing returned although a writer function raised"))
        except Exception:  # pylint: disable=broad-except
            pass
        for p, pl in enumerate(plans, start=1):
            for (i, split, md, kind) in pl:
                if kind == "raise" or p > j:
                    continue
                self.wlog.append({"id": i, "sess": self.nsess, "pid": p, "split": split, "md": md, "kind": kind,
                                  "acc": kind == "good", "exc": ""})
        self.wlog.sort(key=lambda e: e["id"])
        self.aborted = getattr(self, "aborted", 0) + 1
        self.multi = None

    # -- dispatch on a TLC action label
    def step(self, name: str, args: tuple) -> bool:
        """Executes one label; returns True when the specification state after it is quiescent."""
        if name == "Create":
            self.create()
            return True
        if name == "Open":
            self.open()
            return True
        if name == "Relocate":
            self.relocate()
            return False
        if name == "BeginFiller":
            self.begin_filler(args[0])
            return False
        if name == "Write":
            self.write(*args)
            return False
        if name == "MutateCaller":
            self.mutate_caller()
            return False
        if name == "ExitFiller":
            self.exit_filler(args[0])
            return False
        if name == "SessionDone":
            return True
        if name == "MultiBegin":
            self.multi_begin(args[0])
            return False
        if name == "MultiEnd":
            self.multi_end()
            return False
        if name == "MultiDone":
            return True
        if name == "MultiAbort":
            self.multi_abort(args[0])
            return True
        raise ValueError(f"unknown label {name}")

    # -- observation
    def observe(self, checks, with_read: bool = True) -> dict:
        """Projected state for Dataset_Eval (+ real read-back of every split)."""
        files = self.proj.project(self.root)
        mem = self.proj.mem_of(self.ds) if self.ds is not None else {"none": True}
        cfiles, (cmem,), _ = canonical(files, extra=(mem,))
        st = {"files": files_to_json(cfiles), "mem": cmem,
              "wlog": [{k: v for k, v in w.items() if k != "exc"} for w in self.wlog], "done": list(self.done),
              "checks": list(checks), "aborted": getattr(self, "aborted", 0)}
        if with_read:
            try:
                st["readback"] = self.readback()
                if "R11" in checks:
                    st["rbsel"] = self.readback_by_label()
            except Exception as exc:  # pylint: disable=broad-except
                # the dataset cannot be read back after a completed session: a finding, not a harness failure
                self.problems.append(("readback-raised", f"reading the dataset back raised {type(exc).__name__}: "
                                      f"{str(exc)[:200]}"))
                self.problems = list(dict.fromkeys(self.problems))
        return st, cfiles, cmem

    def readback(self) -> dict:
        from sedpack.io import Dataset
        out = {}
        ds = Dataset(self.root)
        for split in ("train", "test", "holdout"):
            if split not in ds._dataset_info.splits:  # pylint: disable=protected-access
                continue
            ids = []
            for ex in ds.as_numpy_iterator(split=split, shuffle=0, repeat=False):
                ids.append(int(np.asarray(ex["id"]).reshape(-1)[0]))
            out[split] = ids
        return out

    def readback_by_label(self) -> dict:
        """Selection by shard-level metadata THROUGH THE LIBRARY (C11's 'consequently ...'): for every split and each of
        the labels A, B the ids yielded when only the shards recorded with that label are selected (R11)."""
        from sedpack.io import Dataset
        out = {}
        ds = Dataset(self.root)
        for split in ("train", "test", "holdout"):
            if split not in ds._dataset_info.splits:  # pylint: disable=protected-access
                continue
            seen = []

            def record(si, seen=seen):
                seen.append(md_name(si.custom_metadata))
                return True
            n_all = sum(1 for _ in ds.as_numpy_iterator(split=split, shuffle=0, repeat=False, shard_filter=record))
            out[split] = {}
            for m in ("A", "B"):
                if m not in seen:
                    out[split][m] = []      # (a selection matching no shard is an error by C12; nothing to read)
                    continue
                out[split][m] = [int(np.asarray(ex["id"]).reshape(-1)[0]) for ex in ds.as_numpy_iterator(
                    split=split, shuffle=0, repeat=False,
                    shard_filter=lambda si, m=m: md_name(si.custom_metadata) == m)]
            del n_all
        return out


def parse_label(label: str):
    from . import tlc, tlaval
    name, args = tlc.label_name(label)
    vals = tlaval.parse_value("<<" + args + ">>") if args else ()
    return name, vals


def _eq_mod_unknown(a, b) -> bool:
    """Equality where a digest the implementation-side projector could not resolve (UNKNOWN) matches anything."""
    if b == UNKNOWN:
        return True
    if isinstance(a, dict) and isinstance(b, dict):
        return set(a) == set(b) and all(_eq_mod_unknown(a[k], b[k]) for k in a)
    if isinstance(a, (list, tuple)) and isinstance(b, (list, tuple)):
        return len(a) == len(b) and all(_eq_mod_unknown(x, y) for x, y in zip(a, b))
    return a == b


def diff_files(a: dict, b: dict, limit: int = 3, modulo_unknown: bool = False) -> list[str]:
    """Human-readable differences between two canonical files maps (a: specification, b: implementation)."""
    out = []
    for p in sorted(set(a) | set(b)):
        if p not in a:
            out.append(f"only in implementation: {'/'.join(p)} = {json.dumps(b[p])[:200]}")
        elif p not in b:
            out.append(f"only in specification: {'/'.join(p)} = {json.dumps(a[p])[:200]}")
        elif modulo_unknown and _eq_mod_unknown(_norm(a[p]), _norm(b[p])):
            continue
        elif _norm(a[p]) != _norm(b[p]):
            out.append(f"differs {'/'.join(p)}: spec {json.dumps(a[p])[:300]} impl {json.dumps(b[p])[:300]}")
        if len(out) >= limit:
            break
    return out


def _norm(v):
    if isinstance(v, dict):
        return {k: _norm(x) for k, x in sorted(v.items())}
    if isinstance(v, (list, tuple)):
        return [_norm(x) for x in v]
    return v


def rmtree(p: Path) -> None:
    shutil.rmtree(p, ignore_errors=True)
