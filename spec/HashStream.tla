------------------------------ MODULE HashStream ------------------------------
(* C16: the streaming digest loop of utils.hash_checksums (utils.py:63-90).  A file of L bytes (byte i is  *)
(* the number i) is read through a buffer of capacity Cap; a read returns any 1..min(Cap, L - pos) bytes    *)
(* (short reads) and 0 at end of file; every configured hash object is fed exactly the bytes returned.      *)
(* The result tuple pairs position i with algorithm i of the configured tuple (order, repetition).          *)
EXTENDS Naturals, Sequences, FiniteSets, TLC

CONSTANTS L, Cap, Algs,       \* Algs: sequence of algorithm names, e.g. <<"md5", "sha1", "md5">>
          Variant             \* "good" | "whole_buffer" (update(buffer) instead of buffer[:n]) | "skip_short"

VARIABLES pos, fed, chunks, buf, done, result
vars == <<pos, fed, chunks, buf, done, result>>
H == 1..Len(Algs)

Init == /\ pos = 0 /\ fed = [h \in H |-> <<>>] /\ chunks = <<>> /\ done = FALSE /\ result = <<>>
        /\ buf = [i \in 1..Cap |-> 0]                     \* bytearray(Cap): zeros, then stale data
Bytes(a, n) == [i \in 1..n |-> a + i]

\* hashed_file.readinto(memory_view) returns n > 0
Read(n) ==
    /\ ~done /\ pos < L /\ n \in 1..Cap /\ n <= L - pos
    /\ LET newbuf == [i \in 1..Cap |-> IF i <= n THEN pos + i ELSE buf[i]]
           given == CASE Variant = "good" -> Bytes(pos, n)
                      [] Variant = "whole_buffer" -> newbuf
                      [] Variant = "skip_short" -> IF n < Cap THEN <<>> ELSE Bytes(pos, n)
       IN /\ buf' = newbuf
          /\ fed' = [h \in H |-> fed[h] \o given]
    /\ pos' = pos + n /\ chunks' = Append(chunks, n)
    /\ UNCHANGED <<done, result>>
\* readinto returns 0: the iter(..., 0) sentinel ends the loop; hex digests in the order of the algorithms
Eof ==
    /\ ~done /\ pos = L
    /\ done' = TRUE
    /\ result' = [h \in H |-> [alg |-> Algs[h], of |-> fed[h]]]
    /\ UNCHANGED <<pos, fed, chunks, buf>>
Next == (\E n \in 1..Cap : Read(n)) \/ Eof
Spec == Init /\ [][Next]_vars

Content == [i \in 1..L |-> i]
\* at every moment each hash has received exactly the prefix read so far, once, in order
PrefixFed == \A h \in H : fed[h] = [i \in 1..pos |-> i]
\* the final tuple: position i carries algorithm i's digest of the complete content
ResultExact == done => (Len(result) = Len(Algs) /\ \A h \in H : result[h] = [alg |-> Algs[h], of |-> Content])
Terminates == <>done
===============================================================================
