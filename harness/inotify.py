"""Minimal inotify binding (ctypes): which files of a directory were opened, by any thread or native library."""
from __future__ import annotations

import ctypes
import os
import struct

IN_OPEN = 0x00000020
IN_NONBLOCK = 0o4000

_libc = ctypes.CDLL("libc.so.6", use_errno=True)


class OpenWatcher:

    def __init__(self, directory: str):
        self.fd = _libc.inotify_init1(IN_NONBLOCK)
        if self.fd < 0:
            raise OSError(ctypes.get_errno(), "inotify_init1")
        self.wd = _libc.inotify_add_watch(self.fd, os.fsencode(directory), IN_OPEN)
        if self.wd < 0:
            raise OSError(ctypes.get_errno(), "inotify_add_watch")
        self.opened: list[str] = []

    def poll(self) -> list[str]:
        while True:
            try:
                data = os.read(self.fd, 65536)
            except BlockingIOError:
                break
            i = 0
            while i < len(data):
                _wd, mask, _cookie, ln = struct.unpack_from("iIII", data, i)
                name = data[i + 16:i + 16 + ln].split(b"\0", 1)[0].decode()
                if mask & IN_OPEN and name:
                    self.opened.append(name)
                i += 16 + ln
        return self.opened

    def close(self):
        os.close(self.fd)
