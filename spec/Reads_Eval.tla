------------------------------ MODULE Reads_Eval ------------------------------
(* Judges what the iteration interfaces actually yielded (C02, C03, C19, C14 take-prefixes).  One initial    *)
(* state per observation [want, got, mode, sessions, n]; ids are distinct natural numbers.                  *)
EXTENDS Naturals, Sequences, FiniteSets, TLC, Json, IOUtils
VARIABLE idx
Obs == JsonDeserialize(IOEnv.OBS_FILE)
Init == idx \in 1..Len(Obs)
Next == FALSE /\ UNCHANGED idx
Spec == Init /\ [][Next]_idx
O == Obs[idx]
SeqSet(s) == {s[i] : i \in 1..Len(s)}
NoDup(s) == \A i, j \in 1..Len(s) : i # j => s[i] # s[j]
IsSubSeq(a, b) ==
    /\ SeqSet(a) \subseteq SeqSet(b)
    /\ \A i, j \in 1..Len(a) : i < j =>
          (CHOOSE x \in 1..Len(b) : b[x] = a[i]) < (CHOOSE y \in 1..Len(b) : b[y] = a[j])
\* exactly the split's examples, each once (C02)
Bag == NoDup(O.got) /\ SeqSet(O.got) = SeqSet(O.want) /\ Len(O.got) = Len(O.want)
\* the same sequence as the reference pass (C03), and every session's writes in write order
SameSeq == O.got = O.want
WriteOrder == \A k \in 1..Len(O.sessions) : IsSubSeq(O.sessions[k], O.got)
\* repeating iteration: only examples of the split (C19); unshuffled: the one-pass sequence repeated
Member == SeqSet(O.got) \subseteq SeqSet(O.want)
Periodic == \A i \in 1..Len(O.got) : O.got[i] = O.want[((i - 1) % Len(O.want)) + 1]
\* the Rust interface: every consecutive block of n examples is a permutation of the split
Epochs == \A b \in 0..((Len(O.got) \div Len(O.want)) - 1) :
             {O.got[b * Len(O.want) + i] : i \in 1..Len(O.want)} = SeqSet(O.want)
Holds == CASE O.mode = "bag" -> Bag
           [] O.mode = "seq" -> SameSeq /\ Bag
           [] O.mode = "seq+order" -> SameSeq /\ Bag /\ WriteOrder
           [] O.mode = "subseq" -> NoDup(O.got) /\ IsSubSeq(O.got, O.want)   \* a selection keeps the written order
           [] O.mode = "member" -> Member
           [] O.mode = "partial" -> Member /\ NoDup(O.got)      \* a pass that stopped early (raised): nothing foreign, nothing twice
           [] O.mode = "periodic" -> Periodic /\ Member
           [] O.mode = "epochs" -> Epochs /\ Member
Judge == Holds \/ PrintT(<<"FALSE", idx>>)
===============================================================================
