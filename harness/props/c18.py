"""C18 - decided by spec/Dataset.tla at history level; see _dsfamily.py and DESIGN.md section 5."""
from . import _dsfamily as F

LEVEL = "model_checking"


def run(ctx):
    F.run_prop(ctx, "C18")


def replay(ctx, body):
    F.replay_prop(ctx, body, "C18")


# ------------------------------------------------------------------------------------------------
# declarations the format supports and those it does not: an accepted write must keep the dataset readable


def declaration_cells(task):
    import shutil
    import tempfile
    import traceback
    from pathlib import Path
    import numpy as np
    out = {"error": None, "cells": []}
    tmp = Path(tempfile.mkdtemp(prefix="verif_c18d_"))
    try:
        from sedpack.io import Dataset, Metadata
        from sedpack.io.metadata import Attribute, DatasetStructure
        fmt = task["fmt"]
        k = 0
        for decl, vkind, order in [(d_, v_, o_) for d_ in task["declarations"] for v_ in task["value_kinds"]
                                   for o_ in ("middle", "first")]:
            if True:
                if order == "first" and vkind == "good":
                    continue
                k += 1
                root = tmp / f"d{k}"
                shape = () if decl in ("bytes", "str") else (2,)
                attrs = [Attribute(name="id", dtype="int64", shape=(1,)), Attribute(name="v", dtype=decl, shape=shape)]
                if vkind == "missing-variable-attr":
                    attrs.append(Attribute(name="blob", dtype="bytes", shape=()))
                cell = {"fmt": fmt, "decl": decl, "value": vkind, "declared": True, "accepted": None, "readable": None,
                        "ids": None, "detail": "", "order": order}
                try:
                    st = DatasetStructure(saved_data_description=attrs, compression="", examples_per_shard=2,
                                          shard_file_type=fmt, hash_checksum_algorithms=("md5",))
                    ds = Dataset.create(root, Metadata(description="decl"), st)
                except Exception as exc:  # pylint: disable=broad-except
                    cell["declared"] = False
                    cell["detail"] = f"declaration refused: {type(exc).__name__}"
                    out["cells"].append(cell)
                    continue

                def good(i):
                    if decl == "bytes":
                        v = b"payload%d" % i
                    elif decl == "str":
                        v = f"text{i}"
                    else:
                        v = np.array([i, i + 1]).astype(decl)
                    d = {"id": np.array([i], np.int64), "v": v}
                    if vkind == "missing-variable-attr":
                        d["blob"] = b"blob"
                    return d

                def odd(i):
                    d = good(i)
                    if vkind == "fractional-for-int":
                        d["v"] = np.array([1.5, 2.5])
                    elif vkind == "text-for-number":
                        d["v"] = np.array(["ab", "cd"])
                    elif vkind == "wider-dtype":
                        d["v"] = np.array([i, i + 1]).astype("float64" if np.dtype(decl).kind == "f" else "int64")
                    elif vkind == "missing-variable-attr":
                        del d["blob"]
                    elif vkind == "number-for-bytes":
                        d["v"] = np.array([1, 2])
                    elif vkind == "extra-attr":
                        d["undeclared"] = np.array([7], np.int64)
                    return d

                accepted_ids, results = [], []
                try:
                    with ds.filler() as f:
                        # "middle": the odd write is the second of its shard; "first": it is the first write that
                        # reaches a shard - of the first shard and, after two good ones, of the second shard
                        seq = ((1, good), (2, odd), (3, good)) if order == "middle" else \
                            ((1, odd), (2, good), (3, good), (4, odd), (5, good))
                        for i, maker in seq:
                            try:
                                f.write_example(values=maker(i), split="train")
                                accepted_ids.append(i)
                                results.append("acc")
                            except Exception as exc:  # pylint: disable=broad-except
                                results.append("rej:" + type(exc).__name__)
                except Exception as exc:  # pylint: disable=broad-except
                    cell["detail"] = f"session failed: {type(exc).__name__}: {str(exc)[:120]}"
                    cell["accepted"] = results
                    cell["readable"] = False
                    out["cells"].append(cell)
                    continue
                cell["accepted"] = results
                try:
                    got = [int(np.asarray(e["id"]).reshape(-1)[0])
                           for e in Dataset(root).as_numpy_iterator(split="train", shuffle=0, repeat=False)]
                    cell["readable"] = True
                    cell["ids"] = got
                    if got != accepted_ids:
                        cell["detail"] = f"accepted writes {accepted_ids} but read back {got}"
                except Exception as exc:  # pylint: disable=broad-except
                    cell["readable"] = False
                    cell["detail"] = f"reading raised {type(exc).__name__}: {str(exc)[:120]}"
                out["cells"].append(cell)
    except Exception:  # pylint: disable=broad-except
        out["error"] = traceback.format_exc()
    finally:
        shutil.rmtree(tmp, ignore_errors=True)
    return out


DECLS = ["int8", "uint8", "int16", "int32", "int64", "uint64", "float16", "float32", "float64", "bytes", "str"]
VKINDS = ["good", "fractional-for-int", "text-for-number", "wider-dtype", "missing-variable-attr", "number-for-bytes",
          "extra-attr"]


def declarations(ctx):
    from .. import dshist as H
    from ..core import MachineryError
    tasks = [{"fmt": fmt, "declarations": DECLS, "value_kinds": VKINDS} for fmt in ("fb", "npz", "tfrec")]
    try:
        outs = H.run_histories(tasks, fn=declaration_cells)
    finally:
        H.shutdown_pool()
    n = 0
    for o in outs:
        if o["error"]:
            raise MachineryError(o["error"])
        for c in o["cells"]:
            if not c["declared"]:
                continue
            vk = c["value"]
            dk = np_kind(c["decl"])
            if vk in ("fractional-for-int", "wider-dtype") and dk not in ("i", "u", "f"):
                continue
            if vk == "fractional-for-int" and dk == "f":
                continue
            if vk == "text-for-number" and dk not in ("i", "u", "f"):
                continue
            if vk == "number-for-bytes" and c["decl"] not in ("bytes", "str"):
                continue
            if vk == "missing-variable-attr" and c["fmt"] == "fb":
                continue  # fb cannot read any bytes attribute (known finding F6): the cell would only repeat it
            if c["accepted"] and not any(a == "acc" for a in c["accepted"]) and "session failed" not in c["detail"]:
                n += 1
                continue  # nothing was accepted: nothing has to be readable
            n += 1
            if c["readable"] is False or (c["ids"] is not None and c["detail"]):
                odd_at = 0 if c.get("order") == "first" else 1
                bad_write = "good values" if vk == "good" or c["accepted"][odd_at].startswith("rej") else vk
                dclass = {"i": "int", "u": "int", "f": "float", "S": "text"}[dk]
                ctx.violation(f"C18|kind=accepted-unreadable|fmt={c['fmt']}|decl={c['decl']}|declclass={dclass}|value={bad_write}",
                              f"{c['fmt']} attribute declared {c['decl']}, writes {c['accepted']} ({vk}): "
                              f"{c['detail']}", {"cell": c})
    ctx.cov["declaration_cells"] = n
    ctx.log(f"{n} (format, declaration, value kind) cells: an accepted write must keep the dataset readable")


def np_kind(decl):
    import numpy as np
    if decl in ("bytes", "str"):
        return "S"
    return np.dtype(decl).kind


_orig_run = run


def run(ctx):  # noqa: F811
    _orig_run(ctx)
    declarations(ctx)

# ------------------------------------------------------------------------------------------------
# shape sweep: a value whose shape differs from the declared one IN ANY WAY - other rank, other size, or the same rank
# and size with other dimensions (a transposed array) - is rejected and leaves no trace

SHAPES = [((2, 3), [(3, 2), (6,), (2, 3, 1), (1, 2, 3), (2, 2), (1, 6), ()]),
          ((2,), [(1, 2), (2, 1), (3,), (1,), ()]),
          ((), [(1,), (1, 1)]),
          ((1,), [(), (1, 1), (2,)]),
          ((2, 1, 2), [(2, 2, 1), (1, 2, 2), (4,), (2, 2)])]


def shape_cells(task: dict) -> dict:
    import shutil
    import tempfile
    import traceback
    from pathlib import Path
    import numpy as np
    out = {"error": None, "cells": []}
    tmp = Path(tempfile.mkdtemp(prefix="verif_c18s_"))
    try:
        from sedpack.io import Dataset, Metadata
        from sedpack.io.metadata import Attribute, DatasetStructure
        fmt, k = task["fmt"], 0
        for declared, wrongs in SHAPES:
            for wrong in wrongs:
                for pos in ("first", "middle", "last"):      # which attribute carries the wrong shape
                    k += 1
                    names = ["a", "b", "c"]
                    bad_name = names[("first", "middle", "last").index(pos)]
                    st = DatasetStructure(
                        saved_data_description=[Attribute(name="id", dtype="int64", shape=(1,))] +
                        [Attribute(name=n, dtype="float32", shape=declared) for n in names],
                        compression="", examples_per_shard=2, shard_file_type=fmt, hash_checksum_algorithms=("md5",))
                    ds = Dataset.create(tmp / f"d{k}", Metadata(description="shapes"), st)

                    def ex(i, odd=False):
                        d = {"id": np.array([i], np.int64)}
                        for n in names:
                            shp = wrong if (odd and n == bad_name) else declared
                            d[n] = (np.arange(int(np.prod(shp)), dtype=np.float32) + i).reshape(shp)
                        return d
                    cell = {"fmt": fmt, "declared": declared, "presented": wrong, "attribute": pos, "results": [],
                            "detail": ""}
                    good_ids = []
                    try:
                        with ds.filler() as f:
                            # the odd write is the second of the first shard and the first of the third
                            for i, odd in ((1, False), (2, True), (3, False), (4, False), (5, True), (6, False)):
                                try:
                                    f.write_example(values=ex(i, odd), split="train")
                                    cell["results"].append("acc")
                                    if odd:
                                        cell["detail"] = f"write {i} with shape {wrong} for declared {declared} accepted"
                                except Exception as exc:  # pylint: disable=broad-except
                                    cell["results"].append("rej:" + type(exc).__name__)
                                    if not odd:
                                        cell["detail"] = f"good write {i} rejected: {type(exc).__name__}"
                                if not odd:
                                    good_ids.append(i)
                    except Exception as exc:  # pylint: disable=broad-except
                        cell["detail"] = cell["detail"] or f"session failed: {type(exc).__name__}: {str(exc)[:120]}"
                        out["cells"].append(cell)
                        continue
                    try:
                        got = [(int(np.asarray(e["id"]).reshape(-1)[0]),
                                all(np.array_equal(np.asarray(e[n]), ex(int(np.asarray(e["id"]).reshape(-1)[0]))[n])
                                    for n in names))
                               for e in Dataset(tmp / f"d{k}").as_numpy_iterator(split="train", shuffle=0, repeat=False)]
                        if [g[0] for g in got] != good_ids or not all(g[1] for g in got):
                            cell["detail"] = cell["detail"] or f"good writes {good_ids} read back as {got}"
                    except Exception as exc:  # pylint: disable=broad-except
                        cell["detail"] = cell["detail"] or f"reading raised {type(exc).__name__}: {str(exc)[:120]}"
                    out["cells"].append(cell)
    except Exception:  # pylint: disable=broad-except
        out["error"] = traceback.format_exc()
    finally:
        shutil.rmtree(tmp, ignore_errors=True)
    return out


def shapes(ctx):
    from .. import dshist as H
    from ..core import MachineryError
    tasks = [{"fmt": fmt} for fmt in ("fb", "npz", "tfrec")]
    try:
        outs = H.run_histories(tasks, fn=shape_cells)
    finally:
        H.shutdown_pool()
    n = 0
    for o in outs:
        if o["error"]:
            raise MachineryError(o["error"])
        for c in o["cells"]:
            n += 1
            if c["detail"]:
                same = len(c["declared"]) == len(c["presented"])
                ctx.violation(f"C18|kind=shape-sweep|fmt={c['fmt']}|rank={'same' if same else 'other'}",
                              f"{c['fmt']} float32 attribute declared {tuple(c['declared'])}, {c['attribute']} attribute "
                              f"presented as {tuple(c['presented'])}: {c['detail']} (writes {c['results']})", {"cell": c})
    ctx.cov["shape_cells"] = n
    ctx.log(f"{n} (format, declared shape, presented shape, attribute position) cells: the odd write is rejected, "
            f"the good ones read back unchanged")


_decl_run = run


def run(ctx):  # noqa: F811
    _decl_run(ctx)
    shapes(ctx)
