#!/bin/sh
# Runs every check (default: quick tier) sequentially on the current /repo and reports exit codes.
cd "$(dirname "$0")/.."
TIER="${1:-quick}"
for id in C01 C02 C03 C04 C05 C06 C07 C08 C09 C10 C11 C12 C13 C14 C15 C16 C17 C18 C19 C20; do
  start=$(date +%s)
  ./check $id --tier $TIER > /tmp/runall_$id.log 2>&1
  rc=$?
  echo "$id exit=$rc wall=$(( $(date +%s) - start ))s $(grep -c '^KNOWN-FINDING' /tmp/runall_$id.log) known $(grep -c '^VIOLATION' /tmp/runall_$id.log) violations"
done
