"""Parser / printer for TLA+ values as printed by TLC (states in -dump dot, -simulate files, PrintT).

Python representation:
  integers -> int ; strings -> str ; TRUE/FALSE -> bool ; model values -> MV(name)
  <<a, b>>  -> tuple ; {a, b} -> frozenset ; [k |-> v] -> dict (str keys)
  (k :> v @@ k2 :> v2) -> FnMap (dict with arbitrary hashable keys)
"""
from __future__ import annotations


class MV(str):
    """A model value (bare identifier)."""

    def __repr__(self) -> str:  # pragma: no cover
        return f"MV({str(self)})"


class FnMap(dict):
    """A TLA+ function with non-string / non-1..n domain."""

    def __hash__(self):  # type: ignore[override]
        return hash(frozenset(self.items()))


class HDict(dict):
    """Hashable record."""

    def __hash__(self):  # type: ignore[override]
        return hash(frozenset(self.items()))


class _P:

    def __init__(self, s: str):
        self.s = s
        self.i = 0

    def ws(self) -> None:
        while self.i < len(self.s) and self.s[self.i] in " \t\r\n":
            self.i += 1

    def peek(self, k: int = 1) -> str:
        return self.s[self.i:self.i + k]

    def eat(self, tok: str) -> bool:
        self.ws()
        if self.s.startswith(tok, self.i):
            self.i += len(tok)
            return True
        return False

    def expect(self, tok: str) -> None:
        if not self.eat(tok):
            raise ValueError(f"expected {tok!r} at {self.i}: {self.s[self.i:self.i+40]!r}")

    def value(self):
        self.ws()
        c = self.peek()
        if c == '"':
            return self.string()
        if self.peek(2) == "<<":
            self.i += 2
            items = []
            self.ws()
            if self.eat(">>"):
                return ()
            while True:
                items.append(self.value())
                if self.eat(">>"):
                    return tuple(items)
                self.expect(",")
        if c == "{":
            self.i += 1
            items = []
            if self.eat("}"):
                return frozenset()
            while True:
                items.append(self.value())
                if self.eat("}"):
                    return frozenset(items)
                self.expect(",")
        if c == "[":
            self.i += 1
            rec = HDict()
            if self.eat("]"):
                return rec
            while True:
                self.ws()
                j = self.i
                while self.s[self.i].isalnum() or self.s[self.i] == "_":
                    self.i += 1
                key = self.s[j:self.i]
                self.expect("|->")
                rec[key] = self.value()
                if self.eat("]"):
                    return rec
                self.expect(",")
        if c == "(":
            self.i += 1
            fn = FnMap()
            while True:
                k = self.value()
                self.expect(":>")
                fn[k] = self.value()
                if self.eat(")"):
                    return fn
                self.expect("@@")
        if c == "-" or c.isdigit():
            j = self.i
            self.i += 1
            while self.i < len(self.s) and self.s[self.i].isdigit():
                self.i += 1
            return int(self.s[j:self.i])
        j = self.i
        while self.i < len(self.s) and (self.s[self.i].isalnum() or self.s[self.i] in "_!"):
            self.i += 1
        word = self.s[j:self.i]
        if word == "TRUE":
            return True
        if word == "FALSE":
            return False
        if not word:
            raise ValueError(f"cannot parse value at {self.i}: {self.s[self.i:self.i+40]!r}")
        return MV(word)

    def string(self) -> str:
        assert self.s[self.i] == '"'
        self.i += 1
        out = []
        while self.s[self.i] != '"':
            if self.s[self.i] == "\\":
                self.i += 1
                ch = self.s[self.i]
                out.append({"n": "\n", "t": "\t"}.get(ch, ch))
            else:
                out.append(self.s[self.i])
            self.i += 1
        self.i += 1
        return "".join(out)


def parse_value(s: str):
    p = _P(s)
    v = p.value()
    p.ws()
    if p.i != len(p.s):
        raise ValueError(f"trailing input at {p.i}: {p.s[p.i:p.i+40]!r}")
    return v


def parse_state(s: str) -> dict:
    """Parse `/\\ x = v /\\ y = w` (newlines or spaces between conjuncts)."""
    p = _P(s)
    st = {}
    while True:
        p.ws()
        if p.i >= len(p.s):
            return st
        p.eat("/\\")
        p.ws()
        j = p.i
        while p.s[p.i].isalnum() or p.s[p.i] == "_":
            p.i += 1
        name = p.s[j:p.i]
        p.expect("=")
        st[name] = p.value()


def to_tla(v) -> str:
    """Render a Python value as a TLA+ expression (for cfg constants)."""
    if isinstance(v, bool):
        return "TRUE" if v else "FALSE"
    if isinstance(v, MV):
        return str(v)
    if isinstance(v, int):
        return str(v)
    if isinstance(v, str):
        return '"' + v.replace("\\", "\\\\").replace('"', '\\"') + '"'
    if isinstance(v, (tuple, list)):
        return "<<" + ", ".join(to_tla(x) for x in v) + ">>"
    if isinstance(v, (set, frozenset)):
        return "{" + ", ".join(sorted(to_tla(x) for x in v)) + "}"
    if isinstance(v, FnMap):
        if not v:
            return "<<>>"
        return "(" + " @@ ".join(f"{to_tla(k)} :> {to_tla(x)}" for k, x in v.items()) + ")"
    if isinstance(v, dict):
        return "[" + ", ".join(f"{k} |-> {to_tla(x)}" for k, x in v.items()) + "]"
    raise TypeError(type(v))


def plain(v):
    """Convert parsed value into JSON-friendly structure (tuples->lists, sets->sorted lists)."""
    if isinstance(v, (tuple, list)):
        return [plain(x) for x in v]
    if isinstance(v, frozenset):
        return sorted((plain(x) for x in v), key=repr)
    if isinstance(v, FnMap):
        return {to_tla(k): plain(x) for k, x in v.items()}
    if isinstance(v, dict):
        return {k: plain(x) for k, x in v.items()}
    if isinstance(v, MV):
        return str(v)
    return v
