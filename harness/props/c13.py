"""C13 - the lazy thread pool is correct under every thread interleaving.

Decided by spec/LazyPool.tla (TLC: every interleaving of T+1 threads at queue-operation granularity for the
small constants below, safety + liveness under weak fairness) bound to the real pool in both directions:
edge-cover paths of the TLC state graphs are imposed on the real threads through the queue shim
(harness/lazyshim.py) with the projected state compared after every step; seeded schedules explore the real
threads independently of the model; free-running executions are validated against LazyPool_Trace.tla."""
from __future__ import annotations

import random

from .. import tlc
from .. import lazydrive as LD
from ..core import Ctx, MachineryError

LEVEL = "model_checking"


def _configs(ctx: Ctx, prefill):
    """(T, N, fails, abandon, rounds, liveness, dump graph for replay?)"""
    out = []
    q = ctx.quick
    for T in (1, 2):
        for N in range(0, 2 * T + 5):
            out.append((T, N, (), None, 1, True, (T == 1 and N in (0, 1, 2, 5)) or (T == 2 and N in (1, 3))))
        for N in sorted({1, T + 1, 2 * T + 3}):
            for f in range(1, N + 1):
                out.append((T, N, (f,), None, 1, True, N <= T + 1))
        for N in (2, 2 * T + 3):
            for a in range(1, N + 1):
                out.append((T, N, (), a, 1, True, N == 2))
        out.append((T, 2 * T + 3, (2,), 3, 1, True, False))
        out.append((T, 2 * T + 3, (4,), 2, 1, True, False))
    # pool reuse (Collectors of the previous round may still be draining their queue)
    out.append((1, 2, (), None, 2, True, True))
    out.append((1, 2, (), 1, 2, True, True))
    out.append((1, 2, (1,), None, 2, True, False))
    out.append((2, 2, (), None, 2, True, False))
    out.append((2, 2, (), 1, 2, False, False))
    out.append((2, 2, (2,), None, 2, False, False))
    for N in (0, 2, 3):
        out.append((3, N, (), None, 1, True, False))
    out.append((3, 4, (), None, 1, False, False))
    out.append((3, 3, (2,), None, 1, True, False))
    out.append((3, 3, (), 2, 1, True, False))
    if not q:
        out.append((2, 3, (), None, 2, True, False))
        out.append((2, 3, (), 1, 2, True, False))
        out.append((2, 3, (1,), None, 2, True, False))
        # (sizes chosen so that the whole tier finishes in well under an hour on 16 idle cores; beyond them the
        # at-most-once and in-flight invariants are covered for all sizes by the proofs in spec/proofs)
        for N in range(4, 8):
            out.append((3, N, (), None, 1, N <= 4, False))
        for N in (4, 6):
            for f in range(1, N + 1):
                out.append((3, N, (f,), None, 1, N == 4, False))
            for a in range(1, N + 1):
                out.append((3, N, (), a, 1, N == 4, False))
        out.append((2, 2, (), None, 3, False, False))
        out.append((3, 3, (), None, 2, False, False))
        out.append((4, 4, (), None, 1, False, False))
    return out


def run(ctx: Ctx) -> None:
    tlc.sany("LazyPool_Trace")
    prefill = {T: LD.measure_prefill(T) for T in (1, 2, 3, 4)}
    ctx.log(f"prefill measured on the real code: {prefill}")
    ctx.cov["prefill_measured"] = prefill
    # at-most-once and the in-flight bound for EVERY thread count, input length, failing set, abandon position, prefill
    # and number of pool reuses: inductive invariants checked by the TLA+ proof system while TLC and the replays run
    import concurrent.futures as cf
    from .. import tlaps
    prover = cf.ThreadPoolExecutor(max_workers=2)
    proofs = [prover.submit(tlaps.prove, ctx, "LazyPool_OnceProofs", ["AtMostOnceForAllInputs"]),
              prover.submit(tlaps.prove, ctx, "LazyPool_Proofs", ["InFlightBoundForAllInputs"])]
    ctx.assumptions += [
        "threads are scheduled at the granularity of queue.Queue.put/get, one application of the mapped function "
        "and one hand-over to the caller (the queue implementation itself is trusted)",
        "TLC results are exhaustive only for the listed small constants (T<=3, N<=2T+4)",
        "free-running traces sample OS schedules; schedule replays enumerate an edge cover of the T<=2 graphs",
    ]

    # ---------------------------------------------------------------- 1. model checking
    cfgs = _configs(ctx, prefill)
    jobs = []
    for i, (T, N, fails, ab, rounds, live, dump) in enumerate(cfgs):
        consts = LD.cfg_constants(T, N, fails, ab, prefill[T], rounds, False)
        name = f"T{T}N{N}F{'_'.join(map(str, fails))}A{ab}R{rounds}"
        dpath = (ctx.tmp / f"g_{name}.dot") if dump else None
        jobs.append((LD.model_check, (ctx, name, consts), {"liveness": live, "workers": 2, "dump": dpath}))
    results = LD.parallel(jobs, max_workers=8 if ctx.quick else 6)
    graphs = []
    for (T, N, fails, ab, rounds, live, dump), (f, a, k), res in zip(cfgs, jobs, results):
        ctx.add_tlc(a[1], res)
        if not res.ok:
            # the specification models the repaired protocol; a violation here is a defect of the model itself
            raise MachineryError(f"LazyPool.tla violates {res.violated} for {a[1]}:\n" + res.out[-3000:])
        if dump:
            graphs.append(((T, N, fails, ab, rounds), k["dump"]))
    ctx.log(f"TLC: {len(cfgs)} configurations, {ctx.cov['states']} distinct states, all properties hold")
    # non-vacuity: the model must be able to see the hang that a silently dying Collector causes
    res = LD.model_check(ctx, "defect", LD.cfg_constants(2, 3, (2,), None, prefill[2], 1, True), liveness=False)
    if "deadlock" not in res.violated:
        raise MachineryError("sanity: Defect=TRUE configuration did not deadlock in the model")
    ctx.cov["model_sanity"] = "Defect=TRUE (silent Collector death) deadlocks in the model as expected"
    ctx.check_vacuity()
    for f in proofs:
        f.result()
    prover.shutdown()

    # ---------------------------------------------------------------- 2. spec -> code: replay edge covers
    n_paths = n_full = 0
    budget = ctx.pick(1500, 20000)
    for (T, N, fails, ab, rounds), dpath in graphs:
        g = tlc.load_graph(dpath)
        paths = tlc.edge_cover_paths(g)
        rng = random.Random(ctx.seed)
        if len(paths) > budget // len(graphs):
            paths = rng.sample(paths, budget // len(graphs))
        for p in paths:
            ex = LD.replay_path(p, g.nodes, T=T, N=N, fails=fails, abandon=ab, rounds=rounds)
            n_paths += 1
            _judge(ctx, ex, T, N, fails, ab, rounds, "replay")
            if ex.mismatch:
                ctx.add_drift(f"T={T} N={N} fails={fails} abandon={ab} rounds={rounds}: {ex.mismatch}")
            else:
                n_full += 1
            if n_paths % 400 == 1:
                ctx.sample({"kind": "schedule replayed from TLC graph", "T": T, "N": N, "fails": list(fails),
                            "abandon": ab, "rounds": rounds, "schedule": ex.steps[:60]})
    ctx.cov["schedules_replayed_from_tlc"] = n_paths
    ctx.cov["schedules_followed_exactly"] = n_full
    ctx.log(f"replayed {n_paths} TLC schedules on the real pool, {n_full} followed with equal state at every step")

    # ---------------------------------------------------------------- 3. code-side schedule exploration
    rng = random.Random(ctx.seed + 1)
    n_sched = ctx.pick(1000, 20000)
    distinct = set()
    for i in range(n_sched):
        T = rng.choice((1, 2, 2, 3, 3, 4))
        N = rng.randint(0, 2 * T + 5)
        fails = ()
        if N and rng.random() < 0.35:
            fails = tuple(sorted(rng.sample(range(1, N + 1), rng.choice((1, 1, 2)) if N > 1 else 1)))
        ab = rng.randint(1, N) if N and rng.random() < 0.3 else None
        rounds = rng.choice((1, 1, 1, 2, 3))
        ex = LD.run_scheduled(T=T, N=N, fails=fails, abandon=ab, rounds=rounds,
                              chooser=LD.random_chooser(ctx.seed * 1_000_003 + i))
        distinct.add((T, N, fails, ab, rounds, tuple(ex.steps)))
        _judge(ctx, ex, T, N, fails, ab, rounds, "explore")
        if i % 500 == 0:
            ctx.sample({"kind": "seeded schedule on the real threads", "T": T, "N": N, "fails": list(fails),
                        "abandon": ab, "rounds": rounds, "schedule": ex.steps[:40],
                        "rounds_result": [{k: v for k, v in r.items()} for r in ex.result.get("rounds", [])]})
    ctx.cov["seeded_schedules"] = n_sched
    ctx.cov["seeded_schedules_distinct"] = len(distinct)
    ctx.log(f"explored {n_sched} seeded schedules ({len(distinct)} distinct)")

    # ---------------------------------------------------------------- 4. code -> spec: free-running traces
    n_tr = ctx.pick(480, 12000)
    groups = {}
    rng = random.Random(ctx.seed + 2)
    pool_cfgs = []
    for _ in range(ctx.pick(40, 300)):
        T = rng.choice((1, 2, 3))
        N = rng.randint(0, 2 * T + 4)
        fails = (rng.randint(1, N),) if N and rng.random() < 0.3 else ()
        ab = rng.randint(1, N) if N and rng.random() < 0.3 else None
        pool_cfgs.append((T, N, fails, ab, rng.choice((1, 1, 2))))
    for i in range(n_tr):
        T, N, fails, ab, rounds = pool_cfgs[i % len(pool_cfgs)]
        ex = LD.run_free(T=T, N=N, fails=fails, abandon=ab, rounds=rounds, jitter_seed=ctx.seed + i)
        bad = _judge(ctx, ex, T, N, fails, ab, rounds, "free")
        if ex.deadlock is not None:
            continue  # a hung execution has no complete trace; already judged
        groups.setdefault((T, N, fails, ab, rounds), []).append(LD.events_to_trace(ex.events))
    # a consumer that is busy for a while between two results (all workers idle meanwhile) must not lose anything
    n_stall = 0
    for T, N, at, secs in ((2, 12, 1, 1.3), (1, 9, 2, 1.3), (3, 20, 3, 1.3)) + (() if ctx.quick else ((2, 30, 5, 3.5), (4, 40, 1, 2.2))):
        ex = LD.run_free(T=T, N=N, stall=(at, secs), watchdog=30 + secs)
        n_stall += 1
        _judge(ctx, ex, T, N, (), None, 1, "free")
        if ex.deadlock is None:
            groups.setdefault((T, N, (), None, 1), []).append(LD.events_to_trace(ex.events))
    ctx.cov["free_runs_with_a_stalling_consumer"] = n_stall
    jobs = []
    keys = list(groups)
    for gi, key in enumerate(keys):
        T, N, fails, ab, rounds = key
        consts = LD.cfg_constants(T, N, fails, ab, prefill[T], rounds, False)
        jobs.append((LD.validate_traces, (ctx, consts, groups[key], f"g{gi}"), {}))
    outs = LD.parallel(jobs, max_workers=12)
    n_ok = n_bad = 0
    for key, (res, reached) in zip(keys, outs):
        for tr, (got, want) in zip(groups[key], reached):
            if got == want:
                n_ok += 1
            else:
                n_bad += 1
                ev = tr[got - 1] if got - 1 < len(tr) else None
                ctx.add_drift(f"trace rejected by LazyPool_Trace for T,N,fails,abandon,rounds={key}: matched "
                              f"{got - 1} of {want - 1} events; next event {ev}", tr[max(0, got - 4):got + 1])
        if res.violated:
            # an invariant of the specification is false in a state reached by following a recorded trace
            ctx.add_drift(f"invariant {res.violated} false along a recorded trace for {key}")
    ctx.cov["traces_validated_against_impl"] = n_ok + n_paths
    ctx.cov["free_traces_accepted"] = n_ok
    ctx.cov["free_traces_rejected"] = n_bad
    if keys:
        ctx.sample({"kind": "free-running trace (first events)", "config": list(map(str, keys[0])),
                    "events": groups[keys[0]][0][:25]})
    ctx.log(f"validated {n_ok} free-running traces against LazyPool_Trace ({n_bad} rejected)")
    # binding demonstration: a corrupted trace must be rejected
    if keys:
        key = max(keys, key=lambda k: len(groups[k][0]))
        tr = [dict(e) for e in groups[key][0]]
        idx = next((i for i, e in enumerate(tr) if e["th"] == "w" and e["op"] == "put"), None)
        if idx is not None:
            tr[idx]["x"] = tr[idx]["x"] + 1
            T, N, fails, ab, rounds = key
            _res, reached = LD.validate_traces(ctx, LD.cfg_constants(T, N, fails, ab, prefill[T], rounds, False),
                                               [tr], "corrupt")
            if reached[0][0] == reached[0][1]:
                raise MachineryError("binding self-test failed: a corrupted trace was accepted")
            ctx.cov["binding_selftest"] = f"trace with one corrupted field rejected at event {reached[0][0]}"
    ctx.cov["exhaustive"] = False


def _judge(ctx: Ctx, ex, T, N, fails, ab, rounds, how):
    bad = LD.judge(ex, T=T, N=N, fails=fails, abandon=ab, rounds=rounds)
    for sig, what in bad:
        ctx.violation(f"C13|{sig}", f"LazyPool T={T} N={N} fails={list(fails)} abandon={ab} rounds={rounds}: {what}",
                      {"mode": how, "T": T, "N": N, "fails": list(fails), "abandon": ab, "rounds": rounds,
                       "schedule": ex.steps, "observed": {k: v for k, v in ex.result.items() if k != "pool"},
                       "deadlock": ex.deadlock})
        break
    return bad


def replay(ctx: Ctx, body: dict) -> None:
    w = body["witness"]
    sched = list(w.get("schedule") or [])
    pos = {"i": 0}

    def chooser(enabled, ctl, stepno):
        if pos["i"] >= len(sched):
            raise StopIteration
        tid = sched[pos["i"]].split(":")[0]
        pos["i"] += 1
        if tid not in enabled:
            raise LD.LS.ScheduleMismatch(f"{tid} not enabled at step {stepno}")
        return tid

    if w["mode"] == "free":
        ex = LD.run_free(T=w["T"], N=w["N"], fails=w["fails"], abandon=w["abandon"], rounds=w["rounds"],
                         jitter_seed=ctx.seed)
    else:
        ex = LD.run_scheduled(T=w["T"], N=w["N"], fails=tuple(w["fails"]), abandon=w["abandon"],
                              rounds=w["rounds"], chooser=chooser)
    ctx.cov["evaluations"] = 1
    ctx.cov["distinct_nontrivial"] = 1
    _judge(ctx, ex, w["T"], w["N"], tuple(w["fails"]), w["abandon"], w["rounds"], w["mode"])
