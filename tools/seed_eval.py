#!/usr/bin/env python3
"""Confirm a seeded change and run checks against it.
usage: tools/seed_eval.py <seed-id> <worktree> <out-dir> <property> <check-id> [<check-id> ...]
1. in the scratch worktree: demo fails with the change, passes without it; the existing test suite passes with it
2. stores patch.diff / demo.py / notes.md / meta.json under /verif/seeded/<seed-id>/
3. applies the patch to /repo, runs every named check (quick tier), restores /repo"""
import json
import os
import shutil
import subprocess
import sys
import time
from pathlib import Path

VERIF = Path(__file__).resolve().parent.parent


def sh(cmd, cwd=None, env=None, timeout=3600):
    p = subprocess.run(cmd, shell=True, cwd=cwd, env=env, capture_output=True, text=True, timeout=timeout)
    return p.returncode, p.stdout + p.stderr


def main():
    seed, wt, out, prop = sys.argv[1:5]
    checks = sys.argv[5:]
    wt, out = Path(wt), Path(out)
    dst = VERIF / "seeded" / seed
    dst.mkdir(parents=True, exist_ok=True)
    env = dict(os.environ, PYTHONPATH=str(wt / "src"), TF_CPP_MIN_LOG_LEVEL="3")
    meta = {"seed": seed, "breaks_property": prop, "ran": []}
    patch = (out / "patch.diff").read_text()
    # 1. confirmation in the scratch worktree
    rust = "rust/" in patch

    def build_ext():
        if not rust:
            return
        tgt = f"{wt}_target"
        rcb, ob = sh(f"cd {wt}/rust && CARGO_TARGET_DIR={tgt} PYO3_PYTHON=/venv/bin/python cargo build --release "
                     f"--offline --features pyo3/extension-module && cp {tgt}/release/libsedpack_rs.so "
                     f"{wt}/src/sedpack/_sedpack_rs.cpython-312-x86_64-linux-gnu.so", timeout=1800)
        if rcb != 0:
            print("rust build failed", ob[-2000:])
            raise SystemExit(2)

    recheck = os.environ.get("SEED_EVAL_RECHECK") and (dst / "meta.json").exists()
    if recheck:
        # the change was confirmed in an earlier run (recorded in meta.json); only run (more) checks against it
        old = json.loads((dst / "meta.json").read_text())
        if not old.get("confirmed"):
            print("not confirmed earlier")
            return 2
        return run_checks(seed, dst, old, checks, dict(old.get("checks", {})), rust=False, wt=wt)
    sh("git checkout -- . && git clean -fdq -e '*.so'", cwd=wt)
    build_ext()
    rc0, o0 = sh(f"/venv/bin/python {out}/demo.py", cwd=wt, env=env, timeout=1800)
    rc, o = sh(f"git apply {out}/patch.diff", cwd=wt)
    if rc != 0:
        print("patch does not apply:", o)
        return 2
    build_ext()
    rc1, o1 = sh(f"/venv/bin/python {out}/demo.py", cwd=wt, env=env, timeout=1800)
    meta["demo_exit_without_change"] = rc0
    meta["demo_exit_with_change"] = rc1
    t0 = time.time()
    rct, ot = sh("/venv/bin/python -m pytest -q -p no:cacheprovider --timeout=900 tests", cwd=wt, env=env,
                 timeout=3000)
    tail = [l for l in ot.strip().splitlines() if "passed" in l or "failed" in l][-1:] or ot.strip().splitlines()[-1:]
    meta["existing_tests_with_change"] = {"exit": rct, "summary": tail[0] if tail else "", "wall_s": round(time.time() - t0)}
    meta["confirmed"] = (rc0 == 0 and rc1 != 0 and rct == 0)
    meta["ran"] += [f"cd {wt} && PYTHONPATH={wt}/src /venv/bin/python {out}/demo.py  (without change: exit {rc0}; with: exit {rc1})",
                    f"cd {wt} && PYTHONPATH={wt}/src /venv/bin/python -m pytest -q --timeout=900 tests  ({meta['existing_tests_with_change']['summary']})"]
    for f in ("patch.diff", "demo.py", "notes.md"):
        if (out / f).exists():
            shutil.copy(out / f, dst / f)
    notes = (out / "notes.md").read_text() if (out / "notes.md").exists() else ""
    meta["needs_to_manifest"] = ""
    return run_checks(seed, dst, meta, checks, {}, rust, wt)


def run_checks(seed, dst, meta, checks, results, rust, wt):
    # 2. run the checks against the change applied to /repo
    if meta["confirmed"] and checks:      # (no checks named: confirmation only, /repo is not touched)
        rc, o = sh(f"git -C /repo apply {dst}/patch.diff")
        if rc != 0:
            print("patch does not apply to /repo:", o)
            return 2
        try:
            for c in checks:
                t0 = time.time()
                rc, o = sh(f"./check {c} --tier quick", cwd=VERIF, timeout=3000)
                viol = [l for l in o.splitlines() if l.startswith("VIOLATION")]
                what = []
                lines = o.splitlines()
                for i, l in enumerate(lines):
                    if l.startswith("VIOLATION") and i + 1 < len(lines):
                        what.append(lines[i + 1].strip()[:300])
                mach = [l for l in lines if l.startswith("MACHINERY-FAILURE")]
                results[c] = {"exit": rc, "violations": len(viol), "first": what[:3], "machinery": mach[:1],
                              "wall_s": round(time.time() - t0)}
                meta["ran"] = [r for r in meta["ran"] if f"./check {c} " not in r]
                meta["ran"].append(f"git -C /repo apply seeded/{seed}/patch.diff && ./check {c} --tier quick  (exit {rc}, "
                                   f"{len(viol)} VIOLATION lines)")
        finally:
            sh("git -C /repo checkout -- .")
    meta["checks"] = results
    meta["caught_by"] = sorted(c for c, r in results.items() if r["exit"] == 1)
    if rust:
        shutil.rmtree(f"{wt}_target", ignore_errors=True)
    (dst / "meta.json").write_text(json.dumps(meta, indent=1))
    print(json.dumps({k: meta[k] for k in ("seed", "confirmed", "demo_exit_without_change", "demo_exit_with_change",
                                            "existing_tests_with_change", "caught_by")}, indent=1))
    for c, r in results.items():
        print(c, r["exit"], r["violations"], (r["first"] or r["machinery"] or [""])[0][:200])
    return 0


if __name__ == "__main__":
    sys.exit(main())
