--------------------------- MODULE PathGuard_Eval ---------------------------
(* Judges observations of the real library against PathGuard: for each rendered string, the parts pathlib *)
(* computes (model conformance), whether the real validators accepted it, and whether the location the     *)
(* library would use lies inside the root.                                                                *)
EXTENDS PathGuard, TLCExt
VARIABLE idx
Obs == JsonDeserialize(IOEnv.OBS_FILE)
EInit == idx \in 1..Len(Obs) /\ abs = Obs[idx].abs /\ comps = Obs[idx].comps
ENext == FALSE /\ UNCHANGED <<vars, idx>>
ESpec == EInit /\ [][ENext]_<<vars, idx>>
\* the model's path semantics agree with pathlib / os.path (a disagreement is a model error, never an alarm)
ModelOK == /\ P.parts = Obs[idx].parts /\ P.isabs = Obs[idx].isabs
           /\ Inside(Root, Target) = Obs[idx].inside
\* the property: an accepted string never leads outside
Safe == Obs[idx].accepted => Inside(Root, Target)
\* conformance of the validators with Guard (drift level)
GuardConforms == Obs[idx].accepted = Guard(P)
Judge == /\ (ModelOK \/ PrintT(<<"MODEL-MISMATCH", idx>>))
         /\ (Safe \/ PrintT(<<"UNSAFE", idx>>))
         /\ (GuardConforms \/ PrintT(<<"GUARD-DIFFERS", idx>>))
===============================================================================
