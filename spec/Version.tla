------------------------------- MODULE Version -------------------------------
(* C20, version gate (dataset_base.py:81-88): a dataset recorded by a newer library version is refused, the  *)
(* same or an older version loads.  Versions are MAJOR.MINOR.PATCH triples compared component-wise in this  *)
(* order (semantic versioning), not as strings.                                                             *)
EXTENDS Naturals, Sequences, TLC, Json, IOUtils

CONSTANTS Range,       \* component values explored, e.g. 0..2 (the running version sits in the middle)
          Running,     \* <<major, minor, patch>> of the library
          Gate         \* "lex" (semver order) | "major_only" | "string" (digit-string comparison) - for sanity

VARIABLE v
Init == v \in Range \X Range \X Range
Next == FALSE /\ UNCHANGED v
Spec == Init /\ [][Next]_v

LexLeq(a, b) == \/ a[1] < b[1]
                \/ a[1] = b[1] /\ a[2] < b[2]
                \/ a[1] = b[1] /\ a[2] = b[2] /\ a[3] <= b[3]
Loads(a) == CASE Gate = "lex" -> LexLeq(a, Running)
              [] Gate = "major_only" -> a[1] <= Running[1]
              [] Gate = "string" -> LexLeq(<<a[1] % 10, a[2] % 10, a[3] % 10>>, Running)   \* crude: last digit only
\* the statement
NewerRefused == ~LexLeq(v, Running) => ~Loads(v)
SameOrOlderLoads == LexLeq(v, Running) => Loads(v)
===============================================================================
