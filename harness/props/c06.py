"""C06 - a writer crash never corrupts or loses committed data.

Model: Dataset.tla with Atomic = FALSE - every file-system effect (mkdir, create, partial write, full write,
rename) is a step, Crash may follow any of them, an interleaved reader walks the tree meanwhile;
C06_CrashSafe / C06_Reader are invariants of EVERY state. Binding: real writer processes run under strace;
every prefix of the recorded effects (plus torn variants of every write) is materialised, projected and judged
by TLC (Dataset_Eval: C06 on the projected files, R06 on what the real reader returns); the recorded effect
sequence itself is validated against Dataset_Trace.tla (protocol conformance)."""
from __future__ import annotations

import collections
import concurrent.futures as cf
import json
import random

from .. import crash, dshist as H, fsrec, tlc
from ..core import Ctx, MachineryError

LEVEL = "model_checking"
FS = frozenset
INV = ["C06_CrashSafe", "C06_Reader", "C09_NoSharedPath", "NoSessionFails", "C04_Exact", "C08_AppendOnly"]


def _jobs_from_behaviours(behs, targets, single_process_every=3):
    jobs = []
    for i, b in enumerate(behs):
        fmt, comp, hashes = targets[i % len(targets)]
        labels = [(nm, tlc.tlaval.plain(args)) for nm, args, _st in b]
        jobs.append({"labels": labels, "fmt": fmt, "compression": comp, "hashes": list(hashes), "eps": 2,
                     "single_process": (i % single_process_every != 0)})
    return jobs


def record_and_judge(ctx: Ctx, jobs, *, torn: int, reader_every: int, tag: str, groups: int = 2):
    """Runs the jobs under strace (in `groups` traced processes), judges every crash state.
    Returns (per-job outputs, per-job driver results)."""
    chunks = [jobs[i::groups] for i in range(groups)]
    index = [list(range(len(jobs)))[i::groups] for i in range(groups)]

    def rec(gi):
        d = ctx.tmp / f"rec_{tag}_{gi}"
        d.mkdir(parents=True, exist_ok=True)
        (d / "jobs.json").write_text(json.dumps(chunks[gi]))
        st = fsrec.record(d / "jobs.json", d, timeout=1500)
        events = fsrec.parse(st)
        st.unlink()
        results = json.loads((d / "results.json").read_text())
        return crash.split_jobs(events), results

    with cf.ThreadPoolExecutor(max_workers=groups) as ex:
        recs = list(ex.map(rec, range(groups)))
    args, owners, driver = [], [], {}
    for gi, (byjob, results) in enumerate(recs):
        for lj, job in enumerate(chunks[gi]):
            gj = index[gi][lj]
            driver[gj] = results[lj]
            if lj not in byjob:
                raise MachineryError(f"recorder lost job {gj}")
            args.append({"root": byjob[lj]["root"], "events": byjob[lj]["events"], "fmt": job["fmt"],
                         "compression": job["compression"], "hashes": job["hashes"], "torn": torn,
                         "reader_every": reader_every if job["fmt"] != "tfrec" else max(reader_every, 3),
                         "final_checks": job.get("final_checks"), "recover_every": job.get("recover_every", 0),
                         "slow_every": job.get("slow_every", 0)})
            owners.append(gj)
    outs = H.run_histories(args, fn=crash.judge_job)
    return {gj: o for gj, o in zip(owners, outs)}, driver


def run(ctx: Ctx) -> None:
    q = ctx.quick
    ctx.assumptions += [
        "crash = the process stops between two system calls or inside a write (a prefix of its bytes reaches the "
        "file); the operating system stays up, so completed effects are durable and ordered (no power loss)",
        "a digest is modelled as the content itself; TLC is exhaustive only for the listed small constants",
        "leftover update_* temp files and unlisted shard files are allowed by the statement",
    ]
    c = H.consts
    # ------------------------------------------------------------------ 1. model checking at FS granularity
    mc = [("crash_2sessions", c(Splits=FS({"train"}), Atomic=False, CrashOn=True, FillerDirs=FS({(), ("s",)}),
                                MaxSessions=2, MaxWrites=2, MaxK=2)),
          ("reader_interleaved", c(Splits=FS({"train"}), Atomic=False, CrashOn=True, ReaderOn=True,
                                   FillerDirs=FS({(), ("s",)}), MaxSessions=2, MaxWrites=2, MaxK=1)),
          ("crash_streaming", c(Splits=FS({"train"}), Atomic=False, CrashOn=True, Streaming=True,
                                FillerDirs=FS({()}), MaxSessions=2, MaxWrites=3, MaxK=1,
                                Kinds=FS({"good", "badlate"})))]
    mc.append(("crash_then_recovery", c(Splits=FS({"train"}), Atomic=False, CrashOn=True, MaxCrashes=1,
                                        FillerDirs=FS({(), ("s",)}), MaxSessions=2 if q else 3, MaxWrites=2, MaxK=1)))
    if not q:
        mc += [("crash_2sessions_3writes", c(Splits=FS({"train"}), Atomic=False, CrashOn=True,
                                             FillerDirs=FS({(), ("s",)}), MaxSessions=2, MaxWrites=3, MaxK=2)),
               ("reader_multi", c(Splits=FS({"train"}), Atomic=False, CrashOn=True, ReaderOn=True,
                                  FillerDirs=FS({()}), MaxSessions=2, MaxWrites=2, MaxK=2)),
               ("crash_2splits", c(Atomic=False, CrashOn=True, FillerDirs=FS({()}), MaxSessions=2, MaxWrites=2,
                                   MaxK=1))]
    sanity = [("metadata_in_place", c(Splits=FS({"train"}), Atomic=False, CrashOn=True, Protocol="inplace",
                                       FillerDirs=FS({()}), MaxSessions=1, MaxWrites=1, MaxK=1)),
              ("shard_listed_before_written", c(Splits=FS({"train"}), Atomic=False, CrashOn=True,
                                                 Protocol="list_first", FillerDirs=FS({()}), MaxSessions=2,
                                                 MaxWrites=1, MaxK=1))]
    with cf.ThreadPoolExecutor(max_workers=3) as ex:
        futs = [(n, ex.submit(H.model_check, ctx, n, cc, invariants=INV, workers=5)) for n, cc in mc]
        sf = [(n, ex.submit(H.model_check, ctx, "sanity_" + n, cc, invariants=["C06_CrashSafe"], workers=2))
              for n, cc in sanity]
        for n, f in futs:
            res = f.result()
            ctx.add_tlc(n, res)
            if not res.ok:
                raise MachineryError(f"Dataset.tla ({n}) violates {res.violated}\n" +
                                     "\n".join(l.split(" line")[0] for l, _ in res.error_trace))
            ctx.log(f"TLC {n}: {res.distinct} distinct states (every one a crash point), depth {res.depth}, "
                    f"{res.wall_s:.0f}s - C06_CrashSafe / C06_Reader hold")
        notes = []
        for n, f in sf:
            res = f.result()
            if "C06_CrashSafe" not in res.violated:
                raise MachineryError(f"model sanity: protocol deviation {n} does not violate C06_CrashSafe")
            notes.append(f"{n}: C06_CrashSafe violated after {len(res.error_trace) - 1} steps")
        ctx.cov["model_sanity"] = notes

    # ------------------------------------------------------------------ 2. real sessions under strace
    sims = [("crash_atclose", c(FillerDirs=FS({(), ("s",)}), MaxSessions=3, MaxWrites=3, MaxK=2,
                                Kinds=FS({"good", "bad"}), MDs=FS({"None", "A"})), 12 if q else 120,
             [("fb", "", ("sha256",)), ("npz", "", ("sha256",)), ("fb", "GZIP", ("md5", "xxh64"))]),
            ("crash_stream", c(FillerDirs=FS({(), ("s",)}), MaxSessions=3, MaxWrites=3, MaxK=2, Streaming=True,
                               Kinds=FS({"good", "bad", "badlate"}), MDs=FS({"None", "A"})), 5 if q else 50,
             [("tfrec", "", ("sha256",)), ("tfrec", "GZIP", ("sha256",))])]
    jobs = []
    for name, cc, num, targets in sims:
        _res, behs = H.simulate(ctx, name, cc, num=num, depth=40, seed=ctx.seed + 3)
        jobs += _jobs_from_behaviours(behs, targets)
    for j in jobs:
        j["recover_every"] = 9 if q else 4
        j["slow_every"] = 3 if q else 1
    ctx.log(f"{len(jobs)} histories to record under strace")
    try:
        outs, driver = record_and_judge(ctx, jobs, torn=2 if q else 6, reader_every=1, tag="a",
                                        groups=2 if q else 6)
        judge_crash_outputs(ctx, jobs, outs, driver)
        sigkill_validation(ctx, 1 if q else 8, 2 if q else 6)
    finally:
        H.shutdown_pool()


def judge_crash_outputs(ctx: Ctx, jobs, outs, driver, prop_preds=("C06", "R06")):
    states, owner = [], []
    n_eff = n_torn = 0
    for gj, job in enumerate(jobs):
        o = outs[gj]
        if o["error"]:
            raise MachineryError("crash-state judge failed:\n" + o["error"])
        n_eff += o["n_effects"]
        n_torn += o["n_torn"]
        for kind, what, tag in o["problems"]:
            ctx.violation(f"C06|kind={kind}|fmt={job['fmt']}", f"{job['fmt']}/{job['compression']}: {what}",
                          {"job": job, "crash_point": tag})
        for st in o["states"]:
            states.append(st)
            owner.append(gj)
        if driver[gj].get("failed"):
            ctx.notes.append(f"history {gj} aborted in the driver: {driver[gj]['failed']}")
    groups = collections.defaultdict(list)
    for k, st in enumerate(states):
        groups[bool(jobs[owner[k]]["hashes"])].append(k)
    n_false = 0
    for hashing, idxs in groups.items():
        bad = H.evaluate(ctx, [states[k] for k in idxs], f"crash{int(hashing)}", hashing=hashing)
        for j, pred in bad:
            if pred not in prop_preds:
                continue
            k = idxs[j]
            n_false += 1
            job = jobs[owner[k]]
            ctx.violation(f"C06|kind=predicate-{pred}|fmt={job['fmt']}",
                          f"{job['fmt']}/{job['compression']}: predicate {pred} is false at crash point "
                          f"'{states[k]['point']}'",
                          {"job": job, "crash_point": states[k]["point"],
                           "state": {"files": states[k]["files"], "readback": states[k].get("readback"),
                                     "wlog": states[k]["wlog"], "done": states[k]["done"]}})
    ctx.cov["sessions_recorded"] = len(jobs)
    ctx.cov["crash_points_between_effects"] = n_eff
    ctx.cov["crash_points_inside_writes"] = n_torn
    ctx.cov["projected_states_judged_by_tlc"] = len(states)
    ctx.cov["real_reader_runs_on_crash_states"] = sum(1 for s in states if "readback" in s)
    ctx.cov["recovery_sessions_on_crash_states"] = sum(outs[gj].get("n_recovered", 0) for gj in range(len(jobs)))
    ctx.cov["slow_reader_mixed_snapshots"] = sum(outs[gj].get("n_slow_reads", 0) for gj in range(len(jobs)))
    ctx.log(f"{len(jobs)} recorded histories: {n_eff} crash points between effects + {n_torn} torn-write points; "
            f"{len(states)} projected states judged by TLC, {n_false} predicate failures")
    if states:
        ctx.sample({"kind": "crash point", "history": [f"{n}{tuple(a)}" for n, a in jobs[owner[len(states) // 2]]
                                                      ["labels"]][:30],
                    "point": states[len(states) // 2]["point"],
                    "files": [f["p"] for f in states[len(states) // 2]["files"]]})
    validate_traces(ctx, jobs, outs)


def validate_traces(ctx: Ctx, jobs, outs):
    """Protocol conformance (level 2): recorded effect sequences vs Dataset_Trace.tla."""
    groups = collections.defaultdict(list)
    for gj, job in enumerate(jobs):
        tr = outs[gj]["trace"]
        if tr:
            groups[(job["fmt"] == "tfrec", bool(job["hashes"]), job.get("eps", 2))].append((gj, tr))
    n_ok = n_bad = 0
    for (streaming, hashing, eps), items in groups.items():
        d = ctx.tmp / f"tv_{int(streaming)}{int(hashing)}{eps}"
        d.mkdir(parents=True, exist_ok=True)
        tf = d / "traces.json"
        # binding self-test: the first trace with one rename moved in front of the write it publishes must be rejected
        corrupt = None
        tr0 = items[0][1]
        ri = next((i for i, e in enumerate(tr0) if e["k"] == "fs" and e["op"] == "rename" and i >= 2), None)
        if ri is not None:
            corrupt = list(tr0)
            corrupt[ri - 1], corrupt[ri] = corrupt[ri], corrupt[ri - 1]
        tf.write_text(json.dumps([tr for _gj, tr in items] + ([corrupt] if corrupt else [])))
        cc = H.consts(Atomic=False, NoMkdir=True, Streaming=streaming, Hashing=hashing, EPS=eps,
                      FillerDirs=FS({(), ("s",), ("s", "t")}), MaxSessions=50, MaxWrites=50, MaxK=6,
                      MaxAborts=3, WriterNames=tuple(f"u{i}" for i in range(1, 25)),
                      Splits=FS({"train", "test", "holdout"}))
        mod, cfg = tlc.make_model(d, "Dataset_Trace", cc, spec="TSpec", constraints=["Reach"], postcondition="Report",
                                  invariants=["C06_CrashSafe", "C09_NoSharedPath"])
        res = tlc.run(mod, cfg, workers=1, workdir=d, coverage=False, env={"TRACE_FILE": str(tf)}, dfs_queue=True,
                      timeout=3000)
        reached = {p[1]: (p[2], p[3]) for p in res.prints if isinstance(p, tuple) and p and p[0] == "REACHED"}
        if corrupt is not None:
            got, want = reached.pop(len(items) + 1)
            if got == want:
                raise MachineryError("binding self-test failed: a trace with a rename moved before its write was "
                                     "accepted by Dataset_Trace")
            ctx.cov["binding_selftest"] = (f"recorded trace with one rename moved in front of the write it "
                                           f"publishes: rejected at event {got}")
        if len(reached) != len(items):
            raise MachineryError(f"trace validation reported {len(reached)} of {len(items)} traces\n{res.out[-2000:]}")
        if res.violated:
            ctx.add_drift(f"an invariant ({res.violated}) is false in a specification state reached by following a "
                          f"recorded trace")
        for i, (gj, tr) in enumerate(items):
            got, want = reached[i + 1]
            if got == want:
                n_ok += 1
            else:
                n_bad += 1
                ev = tr[got - 1] if got - 1 < len(tr) else None
                ctx.add_drift(f"{jobs[gj]['fmt']} history {gj}: recorded effect sequence leaves Dataset_Trace after "
                              f"{got - 1} of {want - 1} events; next event: {json.dumps(ev)[:300]}",
                              tr[max(0, got - 4):got])
    ctx.cov["traces_validated_against_impl"] = n_ok
    ctx.cov["traces_rejected"] = n_bad
    ctx.log(f"trace validation (Dataset_Trace.tla): {n_ok} recorded sessions accepted, {n_bad} rejected")
    if n_ok:
        gj, tr = next(iter(groups.values()))[0]
        ctx.sample({"kind": "recorded trace (abstract events)", "events": tr[:14]})


def sigkill_validation(ctx: Ctx, n_jobs: int, kills_per_job: int) -> None:
    """Thorough tier: validate the materialiser against reality. A history is recorded normally; then the same
    history is run again and the writer is really killed (strace fault injection: SIGKILL on entry of the N-th
    rename) and the directory it leaves behind is projected and compared with the materialised state at that point."""
    from .. import dsreal
    rng = random.Random(ctx.seed + 66)
    labels = [("Create", []), ("BeginFiller", [[]]), ("Write", [0, "train", "None", "good"]),
              ("Write", [0, "train", "None", "good"]), ("Write", [0, "test", "A", "good"]),
              ("Write", [0, "train", "None", "good"]), ("ExitFiller", [0]), ("SessionDone", []),
              ("BeginFiller", [["s"]]), ("Write", [0, "train", "None", "good"]), ("Write", [0, "train", "None", "good"]),
              ("Write", [0, "train", "None", "good"]), ("ExitFiller", [0]), ("SessionDone", [])]
    n_cmp = n_equal = 0
    for ji in range(n_jobs):
        fmt, comp = [("fb", ""), ("npz", ""), ("tfrec", ""), ("fb", "GZIP")][ji % 4]
        job = {"labels": labels, "fmt": fmt, "compression": comp, "hashes": ["sha256"], "eps": 2,
               "single_process": True}
        d = ctx.tmp / f"kill_{ji}"
        d.mkdir(parents=True, exist_ok=True)
        (d / "jobs.json").write_text(json.dumps([job]))
        st = fsrec.record(d / "jobs.json", d)
        events = fsrec.parse(st)
        st.unlink()
        byjob = crash.split_jobs(events)
        root = byjob[0]["root"]
        # ordinal (among ALL rename syscalls of the process) of every rename inside the dataset root
        ordinals, k = [], 0
        for e in events:
            if e["k"] == "fs" and e["op"] == "rename" and e.get("sys") == "rename":
                k += 1
                if e["p"].startswith(root + "/"):
                    ordinals.append(k)
        out = crash.judge_job({"root": root, "events": byjob[0]["events"], "fmt": fmt, "compression": comp,
                               "hashes": ["sha256"], "torn": 0, "reader_every": 10 ** 6})
        if out["error"]:
            raise MachineryError(out["error"])
        rename_states = [i for i, s_ in enumerate(out["states"]) if "(rename" in s_["point"]]
        if len(rename_states) != len(ordinals):
            raise MachineryError("rename bookkeeping mismatch in the SIGKILL validation")
        for which in rng.sample(range(len(ordinals)), min(kills_per_job, len(ordinals))):
            kd = ctx.tmp / f"kill_{ji}_{which}"
            kd.mkdir(parents=True, exist_ok=True)
            (kd / "jobs.json").write_text(json.dumps([job]))
            fsrec.record(kd / "jobs.json", kd, inject=f"inject=rename:signal=SIGKILL:when={ordinals[which]}")
            (kd / "strace.txt").unlink(missing_ok=True)
            left = kd / "roots" / "job0"
            proj = dsreal.Projector(fmt, comp, ("sha256",))
            real_files, _, _ = dsreal.canonical(proj.project(left))
            want_state = out["states"][rename_states[which] - 1] if rename_states[which] > 0 else {"files": []}
            want = {tuple(f["p"]): f["c"] for f in want_state["files"]}
            n_cmp += 1
            # digests of older versions cannot be resolved in the killed run (it never saw them): compare modulo them
            diff = dsreal.diff_files(want, real_files, modulo_unknown=True)
            if not diff:
                n_equal += 1
            else:
                ctx.add_drift(f"SIGKILL before rename #{which + 1} ({fmt}): directory left by the killed writer differs "
                              f"from the materialised crash state: {diff[0][:300]}")
            import shutil as _sh
            _sh.rmtree(kd, ignore_errors=True)
    ctx.cov["real_sigkill_crashes_compared"] = n_cmp
    ctx.cov["real_sigkill_crashes_equal_to_materialised_state"] = n_equal
    ctx.log(f"materialiser validation: {n_cmp} real SIGKILLs (on entry of a rename), {n_equal} left exactly the "
            f"materialised state")


def replay(ctx: Ctx, body: dict) -> None:
    job = body["witness"]["job"]
    try:
        outs, driver = record_and_judge(ctx, [job], torn=6, reader_every=1, tag="r", groups=1)
        ctx.cov["evaluations"] = 1
        ctx.cov["distinct_nontrivial"] = 1
        judge_crash_outputs(ctx, [job], outs, driver)
    finally:
        H.shutdown_pool()
