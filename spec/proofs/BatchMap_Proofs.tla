---------------------------- MODULE BatchMap_Proofs ----------------------------
(* TLAPS proof that the unshuffled concurrent path decodes at most P shards ahead of its consumer (C14) for   *)
(* EVERY number of shards, every shard length, every set of failing shards and every P >= 1.                  *)
EXTENDS BatchMap, TLAPS

ASSUME ConstAssump == Lens \in Seq(Nat) /\ P \in Nat /\ P >= 1 /\ OneBatch \in BOOLEAN

Inv ==
    /\ taken \in Nat
    /\ cur \in [k : Nat, pos : Nat]
    /\ pc \in {"batch", "run", "done", "raised"}
    /\ cur.k >= 1
    /\ cur.k <= taken + 1
    /\ taken - (cur.k - 1) <= P
    /\ pc = "batch" => cur.k = taken + 1

LEMMA KNat == K \in Nat
  BY ConstAssump DEF K

LEMMA InitInv == Init => Inv
  BY ConstAssump DEF Init, Inv

LEMMA NextInv == Inv /\ [Next]_vars => Inv'
  <1> SUFFICES ASSUME Inv, [Next]_vars PROVE Inv'
    OBVIOUS
  <1> USE ConstAssump, KNat
  <1>1. CASE TakeBatch
    <2>1. CASE taken < K /\ (~OneBatch \/ taken = 0)
      <3>1. taken' = Min(K, taken + P) /\ pc' = "run" /\ cur' = cur
        BY <1>1, <2>1 DEF TakeBatch
      <3>2. taken' \in Nat /\ taken' >= taken /\ taken' <= taken + P
        BY <3>1, <2>1 DEF Min, Inv
      <3> QED BY <1>1, <3>1, <3>2 DEF TakeBatch, Inv
    <2>2. CASE ~(taken < K /\ (~OneBatch \/ taken = 0))
      BY <1>1, <2>2 DEF TakeBatch, Inv
    <2> QED BY <2>1, <2>2
  <1>2. ASSUME NEW k \in 1..K, Finish(k) PROVE Inv'
    BY <1>2 DEF Finish, Inv
  <1>3. CASE Yield
    <2>0. pc = "run" /\ cur.k <= taken /\ taken' = taken
      BY <1>3 DEF Yield
    <2>1. CASE cur.k \in Fails
      BY <1>3, <2>1 DEF Yield, Inv
    <2>2. CASE cur.k \notin Fails /\ cur.pos < Lens[cur.k]
      <3>1. cur' = [cur EXCEPT !.pos = @ + 1] /\ pc' = pc
        BY <1>3, <2>2 DEF Yield
      <3> QED BY <2>0, <3>1 DEF Inv
    <2>3. CASE cur.k \notin Fails /\ ~(cur.pos < Lens[cur.k])
      <3>1. cur' = [k |-> cur.k + 1, pos |-> 0] /\ pc' = (IF cur.k + 1 > taken THEN "batch" ELSE "run")
        BY <1>3, <2>3 DEF Yield
      <3> QED BY <2>0, <3>1 DEF Inv
    <2> QED BY <2>1, <2>2, <2>3
  <1>4. CASE Finished
    BY <1>4 DEF Finished, Inv, vars
  <1>5. CASE UNCHANGED vars
    BY <1>5 DEF Inv, vars
  <1> QED BY <1>1, <1>2, <1>3, <1>4, <1>5 DEF Next

THEOREM ReadAheadForAllInputs == Spec => []ReadAhead
  <1>1. Spec => []Inv
    BY InitInv, NextInv, PTL DEF Spec
  <1>2. Inv => ReadAhead
    BY DEF Inv, ReadAhead
  <1> QED BY <1>1, <1>2, PTL
===============================================================================
