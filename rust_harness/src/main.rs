//! Gate-controlled driver for sedpack_rs::parallel_map (no change to /repo).
//!
//! stdin:  first line "T N", then one step per line:
//!   finish <x>   open the gate of item x (its mapped function returns)
//!   panic <x>    open the gate of item x and make the mapped function panic
//!   next         call Iterator::next() on the ParallelMap (blocks until the result is there)
//!   drop         drop the ParallelMap (asynchronously: later steps may open gates the join is waiting for)
//!   openall      open every gate (used at the end)
//! stdout: the linearised event log, one event per line:
//!   start <x> | finish <x> | panicking <x> | ret <x> | ret none | dropping | joined | hang <what>
//! (plan commands: finish x | panic x | next | drop | openall | pause <ms> | settle)
use std::collections::HashMap;
use std::io::BufRead;
use std::sync::{Arc, Condvar, Mutex};
use std::time::Duration;

#[derive(Clone, Copy, PartialEq)]
enum Gate {
    Closed,
    Open,
    Panic,
}

struct Shared {
    gates: HashMap<i64, Gate>,
    all_open: bool,
    log: Vec<String>,
}

static SHARED: std::sync::LazyLock<(Mutex<Shared>, Condvar)> = std::sync::LazyLock::new(|| {
    (Mutex::new(Shared { gates: HashMap::new(), all_open: false, log: Vec::new() }), Condvar::new())
});

fn log(s: String) {
    let (m, _c) = &*SHARED;
    let mut g = m.lock().unwrap_or_else(|e| e.into_inner());
    g.log.push(s);
}

fn mapped(x: i64) -> i64 {
    let (m, c) = &*SHARED;
    let mut g = m.lock().unwrap_or_else(|e| e.into_inner());
    g.log.push(format!("start {x}"));
    loop {
        let st = if g.all_open && g.gates.get(&x).copied().unwrap_or(Gate::Closed) == Gate::Closed {
            Gate::Open
        } else {
            g.gates.get(&x).copied().unwrap_or(Gate::Closed)
        };
        match st {
            Gate::Open => {
                g.log.push(format!("finish {x}"));
                return x;
            }
            Gate::Panic => {
                g.log.push(format!("panicking {x}"));
                drop(g);
                panic!("mapped function failed on {x}");
            }
            Gate::Closed => {
                g = c.wait(g).unwrap_or_else(|e| e.into_inner());
            }
        }
    }
}

enum Cmd {
    Next,
    Drop,
    Quit,
}

/// Seconds after which a blocked `next()` / `drop` is reported as `hang` (VERIF_HANG_SECS, default 20). The driver
/// re-runs a plan that reported a hang with a much larger value before it believes the report.
fn hang_secs() -> u64 {
    std::env::var("VERIF_HANG_SECS").ok().and_then(|v| v.parse().ok()).unwrap_or(20)
}

fn main() {
    // keep worker panics from flooding stderr
    std::panic::set_hook(Box::new(|_| {}));
    let stdin = std::io::stdin();
    let mut lines = stdin.lock().lines();
    let first = lines.next().unwrap().unwrap();
    let mut it = first.split_whitespace();
    let t: usize = it.next().unwrap().parse().unwrap();
    let n: i64 = it.next().unwrap().parse().unwrap();

    // the ParallelMap lives in a dedicated consumer thread so that a blocking next()/drop can be watched
    let (tx, rx) = std::sync::mpsc::channel::<Cmd>();
    let done = Arc::new((Mutex::new(0usize), Condvar::new()));
    let done2 = done.clone();
    let consumer = std::thread::spawn(move || {
        let mut pm = Some(sedpack_rs::parallel_map::parallel_map(mapped, 1..=n, t));
        for cmd in rx {
            match cmd {
                Cmd::Next => {
                    let r = std::panic::catch_unwind(std::panic::AssertUnwindSafe(|| pm.as_mut().unwrap().next()));
                    match r {
                        Ok(Some(x)) => log(format!("ret {x}")),
                        Ok(None) => log("ret none".to_string()),
                        Err(_) => log("ret panic".to_string()),
                    }
                }
                Cmd::Drop => {
                    log("dropping".to_string());
                    drop(pm.take());
                    log("joined".to_string());
                }
                Cmd::Quit => break,
            }
            let (m, c) = &*done2;
            *m.lock().unwrap() += 1;
            c.notify_all();
        }
    });

    let mut issued = 0usize;
    let wait_done = |upto: usize, what: &str| -> bool {
        let (m, c) = &*done;
        let mut g = m.lock().unwrap();
        let deadline = std::time::Instant::now() + Duration::from_secs(hang_secs());
        while *g < upto {
            let now = std::time::Instant::now();
            if now >= deadline {
                log(format!("hang {what}"));
                return false;
            }
            g = c.wait_timeout(g, deadline - now).unwrap().0;
        }
        true
    };
    let mut pending_drop = false;
    let mut ok = true;
    for line in lines {
        let line = line.unwrap();
        let mut p = line.split_whitespace();
        match p.next() {
            Some("finish") | Some("panic") => {
                let x: i64 = p.next().unwrap().parse().unwrap();
                // wait until the worker has really started item x (a task is started asynchronously)
                let deadline = std::time::Instant::now() + Duration::from_secs(std::cmp::max(5, hang_secs() / 4));
                loop {
                    let (m, _c) = &*SHARED;
                    let g = m.lock().unwrap_or_else(|e| e.into_inner());
                    let started = g.log.iter().any(|l| *l == format!("start {x}"));
                    drop(g);
                    if started || std::time::Instant::now() > deadline {
                        break;
                    }
                    std::thread::sleep(Duration::from_micros(100));
                }
                let (m, c) = &*SHARED;
                let mut g = m.lock().unwrap_or_else(|e| e.into_inner());
                g.gates.insert(x, if line.starts_with("panic") { Gate::Panic } else { Gate::Open });
                c.notify_all();
                drop(g);
                let deadline = std::time::Instant::now() + Duration::from_secs(std::cmp::max(5, hang_secs() / 4));
                loop {
                    let (m, _c) = &*SHARED;
                    let g = m.lock().unwrap_or_else(|e| e.into_inner());
                    let seen = g.log.iter().any(|l| *l == format!("finish {x}") || *l == format!("panicking {x}"));
                    drop(g);
                    if seen || std::time::Instant::now() > deadline {
                        break;
                    }
                    std::thread::sleep(Duration::from_micros(100));
                }
            }
            Some("next") => {
                tx.send(Cmd::Next).unwrap();
                issued += 1;
                if !wait_done(issued, "next") {
                    ok = false;
                    break;
                }
            }
            Some("drop") => {
                tx.send(Cmd::Drop).unwrap();
                issued += 1;
                pending_drop = true;
            }
            Some("openall") => {
                let (m, c) = &*SHARED;
                let mut g = m.lock().unwrap_or_else(|e| e.into_inner());
                g.all_open = true;
                c.notify_all();
            }
            Some("pause") => {
                // the consumer is busy elsewhere for a while: every worker that has delivered sits idle meanwhile
                let ms: u64 = p.next().unwrap().parse().unwrap();
                std::thread::sleep(Duration::from_millis(ms));
            }
            Some("settle") => {
                std::thread::sleep(Duration::from_millis(2));
            }
            _ => {}
        }
    }
    if ok && pending_drop {
        ok = wait_done(issued, "drop");
    }
    if ok {
        // leave cleanly: make sure the map is dropped with every gate open
        let (m, c) = &*SHARED;
        {
            let mut g = m.lock().unwrap_or_else(|e| e.into_inner());
            g.all_open = true;
            c.notify_all();
        }
        if !pending_drop {
            tx.send(Cmd::Drop).unwrap();
            issued += 1;
            ok = wait_done(issued, "final-drop");
        }
    }
    let _ = tx.send(Cmd::Quit);
    if ok {
        let _ = consumer.join();
    }
    let (m, _c) = &*SHARED;
    let g = m.lock().unwrap_or_else(|e| e.into_inner());
    for l in g.log.iter() {
        println!("{l}");
    }
    if !ok {
        std::process::exit(3);
    }
}
