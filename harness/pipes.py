"""Binding of ShuffleBuffer.tla / RoundRobin.tla / BatchMap.tla to the real generators.

spec -> code: the index choices of a TLC behaviour are imposed on the real shuffle_buffer / round_robin (and their
async twins) by replacing the random-state helpers in the module namespace; the completion order of the ordered
executor map is imposed through gates around process_and_list. Pull / yield counts and the yielded sequence are
compared with the specification state after every step.
code -> spec: runs with the real pseudo-random generator are logged (pull / yield) and validated by TLC."""
from __future__ import annotations

import asyncio
import threading

from . import tlc


class Script:
    """Object standing in for the random state: `r % n` returns the next scripted index."""

    def __init__(self, choices):
        self.choices = list(choices)
        self.used = 0
        self.mismatch = None

    def __mod__(self, n):
        if not self.choices:
            self.mismatch = "the code asked for more random choices than the behaviour contains"
            return 0
        c = self.choices.pop(0)
        self.used += 1
        if not 0 <= c < n:
            self.mismatch = f"scripted index {c} out of range for buffer of {n}"
            return 0
        return c


class Source:

    def __init__(self, items, log=None, name="src"):
        self.items = list(items)
        self.pulled = 0
        self.log = log
        self.name = name

    def __iter__(self):
        return self

    def __next__(self):
        if self.pulled >= len(self.items):
            raise StopIteration
        self.pulled += 1
        if self.log is not None:
            self.log.append(("pull", self.name, self.items[self.pulled - 1]))
        return self.items[self.pulled - 1]

    def __aiter__(self):
        return self

    async def __anext__(self):
        try:
            return self.__next__()
        except StopIteration:
            raise StopAsyncIteration from None


class _Patched:
    """Installs scripted randomness into sedpack.io.itertools.itertools."""

    def __init__(self, script: Script, flush_order=None):
        self.script = script
        self.flush_order = flush_order
        self.saved = {}

    def __enter__(self):
        import sedpack.io.itertools.itertools as M
        self.M = M
        self.saved = {k: getattr(M, k) for k in ("initial_random_state", "next_random_state", "random")}
        M.initial_random_state = lambda seed=None: self.script
        M.next_random_state = lambda r: r
        outer = self

        class _Rnd:

            @staticmethod
            def shuffle(buf):
                if outer.flush_order is not None:
                    want = list(outer.flush_order)
                    if sorted(map(repr, want)) == sorted(map(repr, buf)):
                        buf[:] = want
                    else:
                        outer.script.mismatch = f"flush: buffer {buf} is not the specification's {want}"

            @staticmethod
            def randint(a, b):
                return a

        M.random = _Rnd
        return self

    def __exit__(self, *exc):
        for k, v in self.saved.items():
            setattr(self.M, k, v)
        return False


def _drain_async(agen):
    loop = asyncio.new_event_loop()
    try:
        out = []

        async def go():
            async for x in agen:
                out.append(x)

        loop.run_until_complete(go())
        return out
    finally:
        loop.close()


# ------------------------------------------------------------------------------------------------
# shuffle buffer


def replay_shuffle(path, nodes, init_id, *, N, B, use_async=False):
    """Impose a TLC behaviour of ShuffleBuffer.tla (finite source) on the real shuffle_buffer.
    Returns (real output, expected output, list of mismatches)."""
    choices, flush_picks = [], []
    prev = nodes[init_id]
    steps = []
    for label, nid in path:
        name, args = tlc.label_name(label)
        st = nodes[nid]
        if name == "LoopYield":
            choices.append(int(args) - 1)
            steps.append(("yield", st))
        elif name == "Flush":
            flush_picks.append((int(args), list(prev["buf"])))
            steps.append(("yield", st))
        prev = st
    flush_order = None
    if flush_picks:
        buf = list(flush_picks[0][1])
        flush_order = []
        for i, _b in flush_picks:
            flush_order.append(buf.pop(i - 1))
        flush_order += buf  # path may end before the flush is complete
    script = Script(choices)
    src = Source(range(1, N + 1))
    mism = []
    real = []
    with _Patched(script, flush_order) as pt:
        if use_async:
            agen = pt.M.shuffle_buffer_async(src, B)
            loop = asyncio.new_event_loop()
            try:
                for kind, st in steps:
                    try:
                        x = loop.run_until_complete(agen.__anext__())
                    except StopAsyncIteration:
                        mism.append("the generator ended before the behaviour did")
                        break
                    real.append(x)
                    if list(st["out"]) != real:
                        mism.append(f"after {len(real)} yields: real {real} spec {list(st['out'])}")
                        break
                    if src.pulled != st["pulled"]:
                        mism.append(f"after {len(real)} yields: pulled {src.pulled} spec {st['pulled']}")
                        break
                loop.run_until_complete(agen.aclose())
            finally:
                loop.close()
        else:
            gen = iter(pt.M.shuffle_buffer(src, B))
            for kind, st in steps:
                try:
                    x = next(gen)
                except StopIteration:
                    mism.append("the generator ended before the behaviour did")
                    break
                real.append(x)
                if list(st["out"]) != real:
                    mism.append(f"after {len(real)} yields: real {real} spec {list(st['out'])}")
                    break
                if src.pulled != st["pulled"]:
                    mism.append(f"after {len(real)} yields: pulled {src.pulled} spec {st['pulled']}")
                    break
            final = nodes[path[-1][1]] if path else prev
            if not mism and final["pc"] == "done":
                rest = list(gen)
                if rest:
                    mism.append(f"the generator yields {rest} after the behaviour reached done")
    if script.mismatch:
        mism.append(script.mismatch)
    return real, mism, src.pulled


def free_shuffle(N, B, seed, use_async=False):
    """Real pseudo-random run: returns (output, event log)."""
    import random as _r
    import sedpack.io.itertools.itertools as M
    _r.seed(seed)
    log = []
    src = Source(range(1, N + 1), log)
    if use_async:
        out = _drain_async(M.shuffle_buffer_async(src, B))
    else:
        out = []
        for x in M.shuffle_buffer(src, B):
            log.append(("yield", "", x))
            out.append(x)
    if use_async:
        return out, None
    return out, [{"op": op, "x": x} for op, _n, x in log]


# ------------------------------------------------------------------------------------------------
# round robin


def replay_round_robin(path, nodes, init_id, *, lens, B, use_async=False):
    picks = []
    yields = []  # spec state after each yielding Pick
    prev = nodes[init_id]
    for label, nid in path:
        name, args = tlc.label_name(label)
        st = nodes[nid]
        if name == "Pick":
            picks.append(int(args) - 1)
            if len(st["out"]) > len(prev["out"]):
                yields.append(st)
        prev = st
    final = prev
    script = Script(picks)
    opens = []
    outer_items = []
    inner_sources = []
    for k, n in enumerate(lens, start=1):
        inner_sources.append(Source([10 * k + j for j in range(1, n + 1)]))

    class Outer:

        def __init__(self):
            self.i = 0

        def __iter__(self):
            return self

        def __next__(self):
            if self.i >= len(inner_sources):
                raise StopIteration
            self.i += 1
            opens.append(self.i)
            return inner_sources[self.i - 1]

        def __aiter__(self):
            return self

        async def __anext__(self):
            try:
                return self.__next__()
            except StopIteration:
                raise StopAsyncIteration from None

    outer = Outer()
    mism, real = [], []
    with _Patched(script) as pt:
        if use_async:
            agen = pt.M.round_robin_async(outer, buffer_size=B)
            loop = asyncio.new_event_loop()
            try:
                for st in yields:
                    try:
                        real.append(loop.run_until_complete(agen.__anext__()))
                    except StopAsyncIteration:
                        mism.append("the generator ended before the behaviour did")
                        break
                    if real != list(st["out"]):
                        mism.append(f"real {real} spec {list(st['out'])}")
                        break
                if not mism and final["pc"] == "done":
                    try:
                        x = loop.run_until_complete(agen.__anext__())
                        mism.append(f"yields {x} after the behaviour reached done")
                    except StopAsyncIteration:
                        pass
                loop.run_until_complete(agen.aclose())
            finally:
                loop.close()
        else:
            gen = iter(pt.M.round_robin(outer, buffer_size=B))
            for st in yields:
                try:
                    real.append(next(gen))
                except StopIteration:
                    mism.append("the generator ended before the behaviour did")
                    break
                if real != list(st["out"]):
                    mism.append(f"real {real} spec {list(st['out'])}")
                    break
                if len(opens) != st["opened"]:
                    mism.append(f"after {len(real)} yields: {len(opens)} inner iterables opened, spec {st['opened']}")
                    break
            if not mism and final["pc"] == "done":
                rest = list(gen)
                if rest:
                    mism.append(f"yields {rest} after the behaviour reached done")
    if script.mismatch:
        mism.append(script.mismatch)
    return real, mism, len(opens)


# ------------------------------------------------------------------------------------------------
# batch map (unshuffled concurrent path) on a real dataset


class Gates:
    """Gates around process_and_list: a worker blocks until its shard's gate is opened."""

    def __init__(self):
        self.events = {}
        self.log = []
        self.lock = threading.Lock()
        self.cv = threading.Condition(self.lock)
        self.open_all = False

    def gate(self, key):
        with self.lock:
            return self.events.setdefault(key, threading.Event())

    def started(self, key):
        with self.cv:
            self.log.append(("start", key))
            self.cv.notify_all()

    def finished(self, key):
        with self.cv:
            self.log.append(("finish", key))
            self.cv.notify_all()

    def wait_for(self, what, key, timeout=10):
        with self.cv:
            return self.cv.wait_for(lambda: (what, key) in self.log, timeout)


class LayoutError(RuntimeError):
    """The library did not produce the shard layout the stage asked for (its roll-over rules differ from what the
    stage relies on): the stage cannot run; this says nothing about the property the stage serves."""


def replay_batchmap(paths_nodes, *, lens, P, fmt="fb"):
    """Impose TLC behaviours of BatchMap.tla on the real unshuffled concurrent path of a real dataset whose shard k
    holds lens[k-1] examples. paths_nodes: [(path, nodes, init_id)]. Returns list of (mismatches, observed)."""
    import shutil
    import tempfile
    from pathlib import Path
    from sedpack.io import Dataset, Metadata
    import sedpack.io.dataset_iteration as DI
    from . import dsreal
    tmp = Path(tempfile.mkdtemp(prefix="verif_bm_"))
    results = []
    try:
        ds = Dataset.create(tmp / "d", Metadata(description="bm"), dsreal.structure(fmt, "", max(lens), ("md5",)))
        ids_of = {}
        nxt = 1
        with ds.filler() as f:
            for k, n in enumerate(lens, start=1):
                ids_of[k] = list(range(nxt, nxt + n))
                for i in ids_of[k]:
                    f.write_example(values=dsreal.example(i), split="train",
                                    custom_metadata={"k": "A"} if k % 2 else {"k": "B"})
                nxt += n
        ds = Dataset(tmp / "d")
        shard_paths = [str(ds.path / s.file_infos[0].file_path) for s in ds.shard_info_iterator("train")]
        if [len(ids_of[k]) for k in sorted(ids_of)] != [s.number_of_examples for s in ds.shard_info_iterator("train")]:
            raise LayoutError("could not build the requested shard layout")
        key_of = {p: k for k, p in enumerate(shard_paths, start=1)}
        cls = {"fb": DI.IterateShardFlatBuffer, "npz": DI.IterateShardNP}[fmt]
        orig = cls.process_and_list
        for path, nodes, init_id in paths_nodes:
            gates = Gates()

            def gated(self, shard_file, _g=gates):
                k = key_of[str(shard_file)]
                _g.started(k)
                _g.gate(k).wait(20)
                res = orig(self, shard_file)
                _g.finished(k)
                return res

            cls.process_and_list = gated
            mism, real = [], []
            max_ahead = 0
            try:
                from . import readers
                import queue as _q
                it = iter(ds.as_numpy_iterator_concurrent(split="train", repeat=False, shuffle=0, file_parallelism=P))
                # the consumer runs in its own thread, one request ahead of the behaviour (so that the generator is
                # started and a new batch is submitted as soon as the previous one is consumed)
                vals = _q.Queue()
                sem = threading.Semaphore(0)
                stop = {"v": False}

                def consume():
                    try:
                        while True:
                            sem.acquire()
                            if stop["v"]:
                                return
                            try:
                                vals.put(("v", readers.ex_id(next(it))))
                            except StopIteration:
                                vals.put(("end", None))
                                return
                    except Exception as exc:  # pylint: disable=broad-except
                        vals.put(("e", exc))

                cth = threading.Thread(target=consume, daemon=True)
                cth.start()
                sem.release()
                prev = nodes[init_id]
                for label, nid in path:
                    name, args = tlc.label_name(label)
                    st = nodes[nid]
                    if name == "Finish":
                        k = int(args)
                        if not gates.wait_for("start", k, 10):
                            mism.append(f"shard {k} was never handed to a worker although the specification has "
                                        f"submitted it (taken={prev['taken']})")
                            break
                        gates.gate(k).set()
                        gates.wait_for("finish", k, 10)
                    elif name == "Yield" and len(st["out"]) > len(prev["out"]):
                        try:
                            kind, v = vals.get(timeout=10)
                        except _q.Empty:
                            mism.append("next() blocks although the shard it needs has finished")
                            break
                        if kind != "v":
                            mism.append(f"next() ended/raised ({kind} {v}) where the specification yields")
                            break
                        real.append(v)
                        sem.release()
                        exp = [ids_of[x // 10][x % 10 - 1] for x in st["out"]]
                        if real != exp:
                            mism.append(f"yielded {real}, specification {exp}")
                            break
                    started = len({k for op, k in gates.log if op == "start"})
                    done_shards = st["cur"]["k"] - 1
                    max_ahead = max(max_ahead, started - done_shards)
                    prev = st
                for k in key_of.values():
                    gates.gate(k).set()
                rest = []
                while True:
                    sem.release()
                    try:
                        kind, v = vals.get(timeout=20)
                    except _q.Empty:
                        mism.append("the pass does not end after every gate was opened")
                        break
                    if kind == "v":
                        rest.append(v)
                    else:
                        if kind == "e":
                            mism.append(f"raised {v}")
                        break
                stop["v"] = True
                sem.release()
                real_all = real + rest
            finally:
                cls.process_and_list = orig
            results.append({"mismatch": mism, "real": real_all, "want": [i for k in sorted(ids_of) for i in ids_of[k]],
                            "max_started_ahead": max_ahead})
    finally:
        shutil.rmtree(tmp, ignore_errors=True)
    return results
