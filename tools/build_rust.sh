#!/bin/sh
# Rebuilds the Rust extension from /repo's current working tree (offline) into /verif/build; never touches /repo.
set -e
DIR="$(cd "$(dirname "$0")/.." && pwd)"
REPO="${VERIF_REPO:-/repo}"
mkdir -p "$DIR/build/ext"
cd "$REPO/rust"
CARGO_NET_OFFLINE=true CARGO_TARGET_DIR="$DIR/build/rs-target" PYO3_PYTHON=/venv/bin/python \
  cargo build --release --offline --features pyo3/extension-module >"$DIR/build/cargo.log" 2>&1 || { cat "$DIR/build/cargo.log"; exit 1; }
cp "$DIR/build/rs-target/release/libsedpack_rs.so" "$DIR/build/ext/_sedpack_rs.so.new"
mv "$DIR/build/ext/_sedpack_rs.so.new" "$DIR/build/ext/_sedpack_rs.cpython-312-x86_64-linux-gnu.so"
echo "rust extension built"
# the gate-controlled parallel_map harness (path dependency on $REPO/rust)
cd "$DIR/rust_harness"
cp "$REPO/rust/Cargo.lock" Cargo.lock 2>/dev/null || true
CARGO_NET_OFFLINE=true CARGO_TARGET_DIR="$DIR/build/rh-target" PYO3_PYTHON=/venv/bin/python \
  cargo build --release --offline >"$DIR/build/cargo_harness.log" 2>&1 || { cat "$DIR/build/cargo_harness.log"; exit 1; }
echo "rust harness built"
