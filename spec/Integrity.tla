------------------------------- MODULE Integrity -------------------------------
(* C05: the integrity check (Dataset.tla: Check, a transcription of dataset_writing.py:201-273) passes on   *)
(* every committed dataset and fails after ANY modification of a file reachable from the description:       *)
(* garbage, deletion, truncation/extension (content changes), replacement by another file's content,        *)
(* rollback to an older version of the same file.  Histories come from Dataset.tla (Atomic mode); one       *)
(* Tamper step may follow any quiescent state.                                                              *)
EXTENDS Dataset

VARIABLES tam,    \* [none |-> TRUE] or [p |-> path, kind |-> ..., old |-> content before]
          past    \* Path -> set of earlier contents of that path (for rollback)
ivars == <<vars, tam, past>>

NoTam == [none |-> TRUE]
GARBAGE == [kind |-> "garbage"]
GONE == [kind |-> "gone"]

IInit == Init /\ tam = NoTam /\ past = <<>>

Remember ==
    past' = [p \in (DOMAIN files') \cup (DOMAIN past) |->
               (IF p \in DOMAIN past THEN past[p] ELSE {}) \cup
               (IF p \in DOMAIN files /\ p \in DOMAIN files' /\ files[p] # files'[p] /\ files[p] # TORN
                THEN {files[p]} ELSE {})]

IStep == tam = NoTam /\ Next /\ Remember /\ UNCHANGED tam

\* files reachable from the description: every list of the walk and every shard it names
ReachPaths(fs) ==
    {ListPath(lp) : lp \in AllReachLists(fs)} \cup
    UNION {{e.id : e \in {ShardEntries(fs, s)[i] : i \in 1..Len(ShardEntries(fs, s))} \ {x \in {ShardEntries(fs, s)[i] : i \in 1..Len(ShardEntries(fs, s))} : IsBad(x)}}
           : s \in DOMAIN InfoSplits(fs)}

SetContent(p, c) ==
    /\ files' = IF c = GONE THEN Del(files, p) ELSE Put(files, p, c)
    /\ UNCHANGED <<dirs, mem, procs, ctl, nextEx, nextShard, nsess, wlog, done, callerMd, crashed, failed, rd, past>>

Tamper(p, kind, c) ==
    /\ tam = NoTam /\ Quiescent /\ mem # NoHandle
    /\ p \in DOMAIN files /\ c # files[p]
    /\ tam' = [p |-> p, kind |-> kind, reach |-> (p \in ReachPaths(files)) \/ p = InfoPath]
    /\ SetContent(p, c)

SameClass(p, q) == (IsMetaPath(p) /\ IsMetaPath(q) /\ p # InfoPath /\ q # InfoPath) \/
                   (~IsMetaPath(p) /\ ~IsMetaPath(q))

TamperAny ==
    \E p \in DOMAIN files :
       \/ Tamper(p, "garbage", GARBAGE)
       \/ Tamper(p, "delete", GONE)
       \/ \E c \in (IF p \in DOMAIN past THEN past[p] ELSE {}) : Tamper(p, "rollback", c)
       \/ \E q \in DOMAIN files : q # p /\ SameClass(p, q) /\ files[q] # TORN /\ Tamper(p, "swap", files[q])

INext == IStep \/ TamperAny
ISpec == IInit /\ [][INext]_ivars

(* ---- properties ------------------------------------------------------------------------------- *)
\* check(hash_checksums_values = expected): the description's own digest is compared first when supplied
CheckWithRoot(tbl, fs, expected) == Has(fs, InfoPath) /\ Digest(fs[InfoPath]) = expected /\ Check(tbl, fs)

PassWhenClean == (tam = NoTam /\ Quiescent /\ mem # NoHandle) => Check(mem, files)
\* a fresh handle on the tampered directory (the description itself is intact unless it was the target)
FreshTbl == IF Has(files, InfoPath) /\ files[InfoPath] # TORN /\ IsInfo(files[InfoPath]) THEN files[InfoPath].splits
            ELSE <<>>
DetectTamper ==
    (tam # NoTam /\ Hashing /\ tam.reach /\ tam.p # InfoPath) => (~Check(mem, files) /\ ~Check(FreshTbl, files))
\* the description file: detected exactly when its expected checksum is supplied
DetectInfoTamper ==
    (tam # NoTam /\ Hashing /\ tam.p = InfoPath) =>
        \A c \in (IF InfoPath \in DOMAIN past THEN past[InfoPath] ELSE {}) \cup {GARBAGE} :
            c # (IF Has(files, InfoPath) THEN files[InfoPath] ELSE GONE) =>
                ~CheckWithRoot(mem, files, Digest(c))
===============================================================================
