"""File-system effect recorder (strace) and crash-state materialiser.

record(): runs a driver process under `strace -f -y -xx`, which executes API-level histories on real datasets
and emits markers (failing mkdir of /__verif__/<hex json>) around every API call, so that API events and
file-system effects share one total order.
parse():  strace output -> ordered events: markers and effects (mkdir / open+truncate / write at offset /
truncate / rename / unlink) on paths under the job's root.
Materialiser: replays effects into a scratch directory one at a time (plus torn variants of each write)."""
from __future__ import annotations

import json
import os
import re
import shutil
import subprocess
import sys
from pathlib import Path

MARK = "/__verif__/"
SYSCALLS = ("openat,creat,write,pwrite64,writev,lseek,ftruncate,truncate,close,rename,renameat,renameat2,mkdir,mkdirat,"
            "unlink,unlinkat,link,linkat,symlink,symlinkat")

_HEX = re.compile(r"\\x([0-9a-f]{2})")


def unhex(s: str) -> bytes:
    return bytes(int(h, 16) for h in _HEX.findall(s))


def mark(obj: dict) -> None:
    """Emit a marker visible to strace (no effect on the file system)."""
    try:
        os.mkdir(MARK + json.dumps(obj, separators=(",", ":")).encode().hex())
    except OSError:
        pass


_LINE = re.compile(r"^(\d+)\s+(.*)$")
_UNFIN = re.compile(r"^(.*) <unfinished \.\.\.>$")
_RESUMED = re.compile(r"^<\.\.\. (\w+) resumed>(.*)$")
_CALL = re.compile(r"^(\w+)\((.*)\)\s+= (-?\d+)(?:<((?:\\x[0-9a-f]{2})*)>)?(.*)$", re.S)
_FDARG = re.compile(r"^(-?\d+|AT_FDCWD)<((?:\\x[0-9a-f]{2})*)>")
_STR = re.compile(r'"((?:\\x[0-9a-f]{2})*)"(\.\.\.)?')


def _split_args(s: str) -> list[str]:
    out, depth, cur, inq = [], 0, [], False
    for ch in s:
        if ch == '"':
            inq = not inq
        if not inq:
            if ch in "([{<":
                depth += 1
            elif ch in ")]}>":
                depth -= 1
            elif ch == "," and depth == 0:
                out.append("".join(cur).strip())
                cur = []
                continue
        cur.append(ch)
    if cur:
        out.append("".join(cur).strip())
    return out


def _path_arg(dirfd_arg: str | None, s: str) -> str:
    m = _STR.search(s)
    p = unhex(m.group(1)).decode("utf-8", "surrogateescape") if m else ""
    if not p.startswith("/") and dirfd_arg:
        dm = _FDARG.match(dirfd_arg)
        if dm:
            base = unhex(dm.group(2)).decode("utf-8", "surrogateescape")
            p = os.path.normpath(os.path.join(base, p))
    return p


def parse(strace_file: Path):
    """-> list of events in completion order:
       {"k":"mark", "pid", **marker}
       {"k":"fs", "pid", "op": mkdir|open|write|trunc|rename|unlink|close, "p": abs path, ...}"""
    pending = {}
    events = []
    offsets = {}  # (pid group unknown -> use path+fd) -> offset
    with open(strace_file, encoding="utf-8", errors="surrogateescape") as f:
        for raw in f:
            m = _LINE.match(raw.rstrip("\n"))
            if not m:
                continue
            pid, rest = int(m.group(1)), m.group(2)
            if rest.startswith("+++") or rest.startswith("---"):
                continue
            u = _UNFIN.match(rest)
            if u:
                pending[pid] = u.group(1)
                continue
            r = _RESUMED.match(rest)
            if r:
                rest = pending.pop(pid, "") + r.group(2)
            c = _CALL.match(rest)
            if not c:
                continue
            name, args, ret, retpath = c.group(1), c.group(2), int(c.group(3)), c.group(4)
            a = _split_args(args)
            if name in ("mkdir", "mkdirat"):
                p = _path_arg(a[0] if name == "mkdirat" else None, a[1] if name == "mkdirat" else a[0])
                if p.startswith(MARK):
                    try:
                        obj = json.loads(bytes.fromhex(p[len(MARK):]).decode())
                    except ValueError:
                        continue
                    obj.update({"k": "mark", "pid": pid})
                    events.append(obj)
                elif ret == 0:
                    events.append({"k": "fs", "pid": pid, "op": "mkdir", "p": p})
                continue
            if ret < 0:
                continue
            if name in ("openat", "creat"):
                if name == "openat":
                    p = _path_arg(a[0], a[1])
                    flags = a[2] if len(a) > 2 else ""
                else:
                    p = _path_arg(None, a[0])
                    flags = "O_WRONLY|O_CREAT|O_TRUNC"
                if not any(x in flags for x in ("O_WRONLY", "O_RDWR")):
                    continue
                key = (p, ret)
                offsets[key] = 0
                events.append({"k": "fs", "pid": pid, "op": "open", "p": p, "creat": "O_CREAT" in flags,
                               "trunc": "O_TRUNC" in flags, "append": "O_APPEND" in flags, "fd": ret})
                continue
            if name in ("write", "pwrite64"):
                fm = _FDARG.match(a[0])
                if not fm:
                    continue
                p = unhex(fm.group(2)).decode("utf-8", "surrogateescape")
                fd = int(fm.group(1))
                sm = _STR.search(a[1])
                data = unhex(sm.group(1)) if sm else b""
                if sm and sm.group(2):
                    raise ValueError("strace truncated write data: increase -s")
                data = data[:ret]
                key = (p, fd)
                if name == "pwrite64":
                    off = int(a[3])
                else:
                    off = offsets.get(key)
                    if off is None:
                        continue  # fd not opened for writing under our eyes (stdout, pipes, ...)
                    offsets[key] = off + ret
                events.append({"k": "fs", "pid": pid, "op": "write", "p": p, "off": off, "data": data})
                continue
            if name == "writev":
                fm = _FDARG.match(a[0])
                if fm and (unhex(fm.group(2)).decode("utf-8", "surrogateescape"), int(fm.group(1))) in offsets:
                    raise ValueError("writev on a traced file is not supported by the recorder")
                continue
            if name == "lseek":
                fm = _FDARG.match(a[0])
                if fm:
                    key = (unhex(fm.group(2)).decode("utf-8", "surrogateescape"), int(fm.group(1)))
                    if key in offsets:
                        offsets[key] = ret
                continue
            if name in ("ftruncate", "truncate"):
                if name == "ftruncate":
                    fm = _FDARG.match(a[0])
                    p = unhex(fm.group(2)).decode("utf-8", "surrogateescape") if fm else ""
                else:
                    p = _path_arg(None, a[0])
                events.append({"k": "fs", "pid": pid, "op": "trunc", "p": p, "len": int(a[1])})
                continue
            if name == "close":
                fm = _FDARG.match(a[0])
                if fm:
                    key = (unhex(fm.group(2)).decode("utf-8", "surrogateescape"), int(fm.group(1)))
                    if key in offsets:
                        del offsets[key]
                        events.append({"k": "fs", "pid": pid, "op": "close", "p": key[0]})
                continue
            if name in ("rename", "renameat", "renameat2"):
                if name == "rename":
                    src, dst = _path_arg(None, a[0]), _path_arg(None, a[1])
                else:
                    src, dst = _path_arg(a[0], a[1]), _path_arg(a[2], a[3])
                # open fds follow the file
                for (p, fd) in list(offsets):
                    if p == src:
                        offsets[(dst, fd)] = offsets.pop((p, fd))
                events.append({"k": "fs", "pid": pid, "op": "rename", "p": src, "q": dst, "sys": name})
                continue
            if name in ("unlink", "unlinkat"):
                p = _path_arg(a[0], a[1]) if name == "unlinkat" else _path_arg(None, a[0])
                events.append({"k": "fs", "pid": pid, "op": "unlink", "p": p})
                continue
            if name in ("link", "linkat", "symlink", "symlinkat"):
                if name == "link":
                    dst = _path_arg(None, a[1])
                elif name == "linkat":
                    dst = _path_arg(a[2], a[3])
                elif name == "symlink":
                    dst = _path_arg(None, a[1])
                else:
                    dst = _path_arg(a[1], a[2])
                events.append({"k": "fs", "pid": pid, "op": "link", "p": dst})
    return events


def record(jobs_file: Path, out_dir: Path, *, timeout: float = 1200, driver: str = "harness.fsdriver",
           inject: str | None = None) -> Path:
    """Run the driver under strace; returns the strace output file."""
    out_dir.mkdir(parents=True, exist_ok=True)
    st = out_dir / "strace.txt"
    cmd = ["strace", "-f", "-y", "-xx", "-s", "4000000", "-o", str(st), "-e", f"trace={SYSCALLS}"]
    if inject:
        cmd += ["-e", inject]
    cmd += [sys.executable, "-m", driver, str(jobs_file), str(out_dir)]
    env = dict(os.environ)
    env["VERIF_MARK"] = "1"
    env["TQDM_DISABLE"] = "1"
    env["PYTHONDONTWRITEBYTECODE"] = "1"
    env.setdefault("TF_CPP_MIN_LOG_LEVEL", "3")
    p = subprocess.run(cmd, env=env, capture_output=True, text=True, timeout=timeout)
    (out_dir / "driver.stdout").write_text(p.stdout[-20000:])
    (out_dir / "driver.stderr").write_text(p.stderr[-20000:])
    if p.returncode != 0 and inject is None:
        raise RuntimeError(f"traced driver failed rc={p.returncode}\n{p.stderr[-3000:]}")
    return st


class Materialiser:
    """Applies recorded effects to a scratch directory, one at a time."""

    def __init__(self, real_root: str, scratch: Path):
        self.real_root = real_root.rstrip("/")
        self.scratch = Path(scratch)
        if self.scratch.exists():
            shutil.rmtree(self.scratch)
        self.scratch.mkdir(parents=True)

    def inside(self, p: str) -> bool:
        return p == self.real_root or p.startswith(self.real_root + "/")

    def map(self, p: str) -> Path:
        return self.scratch / os.path.relpath(p, self.real_root)

    def relevant(self, ev: dict) -> bool:
        if ev["k"] != "fs":
            return False
        return self.inside(ev["p"]) or ("q" in ev and self.inside(ev["q"]))

    def apply(self, ev: dict, partial: int | None = None) -> None:
        op = ev["op"]
        t = self.map(ev["p"])
        if op == "mkdir":
            t.mkdir(parents=True, exist_ok=True)
        elif op == "open":
            t.parent.mkdir(parents=True, exist_ok=True)
            if ev["trunc"] or not t.exists():
                t.write_bytes(b"")
        elif op == "write":
            data = ev["data"] if partial is None else ev["data"][:partial]
            t.parent.mkdir(parents=True, exist_ok=True)
            with open(t, "r+b" if t.exists() else "w+b") as f:
                f.seek(ev["off"])
                f.write(data)
        elif op == "trunc":
            with open(t, "r+b") as f:
                f.truncate(ev["len"])
        elif op == "rename":
            os.replace(t, self.map(ev["q"]))
        elif op == "unlink":
            if t.exists():
                t.unlink()
        elif op == "close":
            pass
        elif op == "link":
            raise ValueError("link/symlink inside a dataset is not modelled")
