"""Shared driver for the read-side properties (C02, C03, C14, C19): stage specifications
(ShuffleBuffer / RoundRobin / BatchMap) model checked and replayed into the real generators, and end-to-end
reads of real datasets through every iteration interface judged by TLC (Reads_Eval.tla)."""
from __future__ import annotations

import itertools
import json
import os

import numpy as np
import random
import shutil
import tempfile
import threading
import traceback
from pathlib import Path

from .. import dshist as H, pipes, tlc
from ..core import Ctx, MachineryError

FS = frozenset


# ------------------------------------------------------------------------------------------------
# stage level


def _mc(ctx: Ctx, module: str, name: str, consts: dict, inv, *, props=(), spec="Spec", cons=(), deadlock=True,
        dump=False):
    d = ctx.tmp / f"st_{module}_{name}"
    mod, cfg = tlc.make_model(d, module, consts, spec=spec, invariants=list(inv), properties=list(props),
                              constraints=list(cons), deadlock=deadlock)
    dot = d / "g.dot" if dump else None
    res = tlc.run(mod, cfg, workers=2, workdir=d, coverage=False, dump=dot, timeout=900)
    ctx.add_tlc(f"{module}:{name}", res)
    if not res.ok:
        raise MachineryError(f"{module}.tla ({name}) violates {res.violated}")
    return res, dot


def _init_of(g, path):
    first_lab, first_dst = path[0]
    for s, t, lab in g.edges:
        if lab == first_lab and t == first_dst and s in g.init:
            return s
    return g.init[0]


def stage_shuffle(ctx: Ctx, budget: int):
    """ShuffleBuffer.tla: TLC + replay of edge covers (sync and async) + free-running traces."""
    n_replay = n_exact = 0
    rng = random.Random(ctx.seed + 2)
    cfgs = [(N, B) for N in range(0, 6 if ctx.quick else 8) for B in (1, 2, 3, 4) if B <= N + 2]
    for N, B in cfgs:
        res, dot = _mc(ctx, "ShuffleBuffer", f"N{N}B{B}", {"N": N, "B": B, "Cyclic": False, "MaxOut": 99},
                       ["BagPreserving", "ReadAhead"], dump=True)
        g = tlc.load_graph(dot)
        paths = tlc.edge_cover_paths(g)
        if len(paths) > budget:
            paths = rng.sample(paths, budget)
        for pi, path in enumerate(paths):
            for use_async in ((False, True) if pi % 3 == 0 else (False,)):
                real, mism, pulled = pipes.replay_shuffle(path, g.nodes, _init_of(g, path), N=N, B=B,
                                                          use_async=use_async)
                n_replay += 1
                if mism:
                    ctx.add_drift(f"shuffle_buffer{'_async' if use_async else ''} N={N} B={B}: {mism[0]}")
                else:
                    n_exact += 1
    for N, B in ((3, 2), (3, 3), (2, 4)):
        _mc(ctx, "ShuffleBuffer", f"cyclic_N{N}B{B}", {"N": N, "B": B, "Cyclic": True, "MaxOut": 2 * N + 2},
            ["ReadAhead", "Productive", "OnlySourceElements"], cons=["Bounded"], deadlock=False)
    # code -> spec: real LCG / random.shuffle
    obs, traces = [], {}
    for i in range(60 if ctx.quick else 1500):
        N = rng.randint(0, 9)
        B = rng.randint(1, 5)
        out, log = pipes.free_shuffle(N, B, seed=ctx.seed * 1000 + i)
        obs.append({"want": list(range(1, N + 1)), "got": out, "mode": "bag", "sessions": [], "what": f"shuffle_buffer N={N} B={B}"})
        if i % 3 == 0:
            out2, _ = pipes.free_shuffle(N, B, seed=ctx.seed * 1000 + i, use_async=True)
            obs.append({"want": list(range(1, N + 1)), "got": out2, "mode": "bag", "sessions": [],
                        "what": f"shuffle_buffer_async N={N} B={B}"})
        if N <= 7:
            traces.setdefault((N, B), []).append(log)
    n_ok = 0
    for (N, B), trs in traces.items():
        d = ctx.tmp / f"tv_sb_{N}_{B}"
        d.mkdir(exist_ok=True)
        tf = d / "t.json"
        tf.write_text(json.dumps(trs))
        mod, cfg = tlc.make_model(d, "ShuffleBuffer_Trace", {"N": N, "B": B, "Cyclic": False, "MaxOut": 99},
                                  spec="TSpec", constraints=["Reach"], postcondition="Report",
                                  invariants=["BagPreserving", "ReadAhead"])
        r = tlc.run(mod, cfg, workers=1, workdir=d, coverage=False, env={"TRACE_FILE": str(tf)}, dfs_queue=True)
        reached = {p[1]: (p[2], p[3]) for p in r.prints if isinstance(p, tuple) and p and p[0] == "REACHED"}
        for i, tr in enumerate(trs):
            got, want = reached.get(i + 1, (0, 1))
            if got == want:
                n_ok += 1
            else:
                ctx.add_drift(f"shuffle_buffer N={N} B={B}: pull/yield log leaves ShuffleBuffer_Trace after "
                              f"{got - 1} of {want - 1} events", tr[:got + 1])
    ctx.cov["shuffle_behaviours_replayed"] = n_replay
    ctx.cov["shuffle_behaviours_followed_exactly"] = n_exact
    ctx.cov["shuffle_traces_validated"] = n_ok
    ctx.count("traces_validated_against_impl", n_exact + n_ok)
    return obs


def stage_round_robin(ctx: Ctx, budget: int):
    n_replay = n_exact = 0
    rng = random.Random(ctx.seed + 3)
    lens_list = [(), (2,), (0,), (1, 2), (2, 0, 1), (0, 0), (1, 1, 1, 1), (3, 1, 0, 2)]
    if not ctx.quick:
        lens_list += [(2, 2, 2), (0, 3, 0, 1, 1), (1, 0, 2, 0, 1)]
    obs = []
    for lens in lens_list:
        for B in (1, 2, 3):
            if len(lens) > 3 and B == 3 and ctx.quick:
                continue
            res, dot = _mc(ctx, "RoundRobin", f"L{'_'.join(map(str, lens))}B{B}", {"Lens": tuple(lens), "B": B},
                           ["BagPreserving", "InnerOrder", "OpenBounded", "NoSlotLost"], dump=True)
            g = tlc.load_graph(dot)
            paths = tlc.edge_cover_paths(g)
            if len(paths) > budget:
                paths = rng.sample(paths, budget)
            for pi, path in enumerate(paths):
                for use_async in ((False, True) if pi % 3 == 0 else (False,)):
                    real, mism, opened = pipes.replay_round_robin(path, g.nodes, _init_of(g, path), lens=lens, B=B,
                                                                  use_async=use_async)
                    n_replay += 1
                    if mism:
                        ctx.add_drift(f"round_robin{'_async' if use_async else ''} lens={lens} B={B}: {mism[0]}")
                    else:
                        n_exact += 1
    # free-running with the real generator
    import sedpack.io.itertools.itertools as M
    for i in range(40 if ctx.quick else 600):
        lens = [rng.randint(0, 3) for _ in range(rng.randint(0, 6))]
        B = rng.randint(1, 4)
        random.seed(ctx.seed * 77 + i)
        got = list(M.round_robin([[10 * (k + 1) + j for j in range(1, n + 1)] for k, n in enumerate(lens)], B))
        want = [10 * (k + 1) + j for k, n in enumerate(lens) for j in range(1, n + 1)]
        obs.append({"want": want, "got": got, "mode": "bag", "sessions": [], "what": f"round_robin lens={lens} B={B}"})
    ctx.cov["round_robin_behaviours_replayed"] = n_replay
    ctx.cov["round_robin_behaviours_followed_exactly"] = n_exact
    ctx.count("traces_validated_against_impl", n_exact)
    return obs


def stage_batchmap_model(ctx: Ctx):
    inv = ["OrderPreserving", "Complete", "ReadAhead"]
    for lens, P in (((2, 1, 2), 1), ((2, 1, 2, 1, 1), 2), ((1, 1, 1), 5), ((2, 2, 1, 1, 2, 1), 3)):
        for fails in (FS(), FS({len(lens)}), FS({1}), FS({2})):
            _mc(ctx, "BatchMap", f"L{len(lens)}P{P}F{len(fails)}_{min(fails) if fails else 0}",
                {"Lens": lens, "P": P, "Fails": fails, "OneBatch": False}, inv,
                props=["Terminates", "FaultSurfaces"], spec="FairSpec")
    d = ctx.tmp / "bm_sanity"
    mod, cfg = tlc.make_model(d, "BatchMap", {"Lens": (1, 1, 1), "P": 2, "Fails": FS(), "OneBatch": True},
                              spec="Spec", invariants=inv)
    r = tlc.run(mod, cfg, workers=1, workdir=d, coverage=False)
    if "Complete" not in r.violated:
        raise MachineryError("model sanity: 'only the first batch' variant not refuted")
    ctx.cov.setdefault("model_sanity", []).append("BatchMap: processing only the first batch violates Complete")


# ------------------------------------------------------------------------------------------------
# end to end


GRID_HISTORIES = {
    "one_shard": [("Create", []), ("BeginFiller", [[]]), ("Write", [0, "train", "None", "good"]), ("ExitFiller", [0]),
                  ("SessionDone", [])],
    "two_splits_short_last": [("Create", []), ("BeginFiller", [[]])] +
                             [("Write", [0, "train" if i % 3 else "test", "None", "good"]) for i in range(11)] +
                             [("ExitFiller", [0]), ("SessionDone", [])],
    "nested_and_continued": [("Create", []), ("BeginFiller", [["s", "t"]])] +
                            [("Write", [0, "train", "None", "good"]) for _ in range(3)] +
                            [("ExitFiller", [0]), ("SessionDone", []), ("BeginFiller", [[]])] +
                            [("Write", [0, "train" if i % 2 else "holdout", "A" if i > 2 else "None", "good"])
                             for i in range(6)] +
                            [("ExitFiller", [0]), ("SessionDone", []), ("BeginFiller", [["s"]]),
                             ("Write", [0, "train", "None", "good"]), ("Write", [0, "test", "None", "good"]),
                             ("ExitFiller", [0]), ("SessionDone", [])],
    "alternating_metadata": [("Create", []), ("BeginFiller", [[]])] +
                            [("Write", [0, "train", ("A", "A", "B", "B", "A", "A", "B", "A", "A")[i], "good"])
                             for i in range(9)] +
                            [("Write", [0, "test", "None", "good"]), ("ExitFiller", [0]), ("SessionDone", [])],
    "multi_writer": [("Create", []), ("MultiBegin", [3])] +
                    [("Write", [1 + i % 3, "train" if i % 4 else "test", "None", "good"]) for i in range(10)] +
                    [("ExitFiller", [1]), ("ExitFiller", [2]), ("ExitFiller", [3]), ("MultiEnd", []),
                     ("MultiDone", []), ("BeginFiller", [[]]), ("Write", [0, "train", "None", "good"]),
                     ("Write", [0, "train", "None", "good"]), ("Write", [0, "train", "None", "good"]),
                     ("ExitFiller", [0]), ("SessionDone", [])],
}


class TransformMixup(Exception):
    """Overlapping passes got each other's process_record."""


def _timed(fn, timeout=90):
    box = {}

    def run():
        try:
            box["v"] = fn()
        except BaseException as exc:  # pylint: disable=broad-except
            box["e"] = exc

    th = threading.Thread(target=run, daemon=True)
    th.start()
    th.join(timeout)
    if th.is_alive():
        # the clock alone is a poor judge on a loaded machine: a pass over a handful of tiny shards that is still
        # running after `timeout` gets a grace period several times as long (scaled by the load) before it is
        # called a hang
        try:
            load = os.getloadavg()[0] / max(1, os.cpu_count() or 1)
        except OSError:
            load = 1.0
        th.join(timeout * max(3.0, min(12.0, 3.0 * load)))
    if th.is_alive():
        return "hang", None
    if "e" in box:
        return "raise", box["e"]
    return "ok", box["v"]


def read_grid(task: dict) -> dict:
    """Worker: build one dataset from a history and run the requested read configurations."""
    out = {"error": None, "obs": [], "problems": [], "reads": 0}
    tmp = Path(tempfile.mkdtemp(prefix="verif_grid_"))
    try:
        from .. import rustext
        if rustext.SO.exists():
            rustext.preload()
        from sedpack.io import Dataset
        from .. import dsreal, readers
        fmt, comp, eps = task["fmt"], task["compression"], task.get("eps", 2)
        rp = dsreal.Replayer(tmp / "d", fmt, comp, eps=eps, hashes=("md5",), md_table=dsreal.MD_FLAT)
        try:
            for nm, args in task["labels"]:
                rp.step(nm, tuple(tuple(a) if isinstance(a, list) else a for a in args))
        finally:
            rp.close()
        committed, sessions = {}, {}
        for w in rp.wlog:
            if w["acc"]:
                committed.setdefault(w["split"], []).append(w["id"])
                sessions.setdefault(w["split"], {}).setdefault((w["sess"], w["pid"]), []).append(w["id"])
        handles = {"writer": rp.ds, "reopened": Dataset(tmp / "d")}
        nshards = {s: len(list(handles["reopened"].shard_info_iterator(s))) for s in committed}
        mode = task["mode"]
        for split, ids in committed.items():
            n = len(ids)
            ref = None
            for cfg in task["configs"]:
                iface = cfg["iface"]
                if not readers.supports(iface, fmt, comp):
                    continue
                fp = cfg["fp"] if cfg["fp"] != "many" else nshards[split] + 2
                if cfg["fp"] == "many+2":
                    fp = 2 * nshards[split] + 1
                shuffle = cfg["shuffle"] if cfg["shuffle"] != "big" else n + 5
                if cfg["shuffle"] == "n":
                    shuffle = n
                kw = {"repeat": cfg["repeat"], "shuffle": shuffle, "file_parallelism": fp}
                if cfg.get("limit"):
                    if iface in ("async", "rust"):
                        continue
                    kw["custom_metadata_type_limit"] = cfg["limit"]
                take = None
                if cfg["repeat"]:
                    take = 3 * n + 1 if mode != "epochs" and iface != "rust" else 3 * n
                pr = None
                if cfg.get("process_record"):
                    if iface == "tfdata":
                        pr = lambda ex: {"id": ex["id"] + 1000}  # noqa: E731
                    else:
                        pr = lambda ex: {"id": ex["id"] + 1000}  # noqa: E731
                ds = handles[cfg.get("handle", "reopened")]
                stall = cfg.get("stall")
                if stall and (n <= stall[0] or nshards[split] <= 2 * (fp if isinstance(fp, int) else 2) + 4):
                    continue        # a stalled pass only says something when shards remain beyond the read-ahead
                status, val = _timed(lambda: readers.read_ids(ds, iface, split, take=take, process_record=pr,
                                                              stall=stall, **kw))
                out["reads"] += 1
                desc = (f"{fmt}/{comp} {task['history']} split={split} ({n} examples, {nshards[split]} shards) "
                        f"{iface} shuffle={shuffle} file_parallelism={fp} repeat={cfg['repeat']}" +
                        (f" consumer busy for {stall[1]} s after example {stall[0]}" if stall else ""))
                if status == "hang":
                    out["problems"].append(("hang", desc + ": no result within the watchdog", cfg))
                    return out
                if status == "raise":
                    out["problems"].append(("raised", desc + f": {type(val).__name__}: {str(val)[:200]}", cfg))
                    continue
                got = [x - 1000 for x in val] if pr else val
                if pr and any(x < 1000 for x in val):
                    out["problems"].append(("process_record", desc + ": the transformation was not applied to "
                                            f"every example: {val[:10]}", cfg))
                    continue
                if mode == "bag":
                    o = {"want": ids, "got": got, "mode": "bag"}
                elif mode == "seq" and cfg.get("limit"):
                    if ref is None:
                        continue
                    o = {"want": ref, "got": got, "mode": "subseq"}
                elif mode == "seq" and cfg["repeat"]:
                    if ref is None:
                        continue
                    if len(got) != take:
                        out["problems"].append(("stream-ended", desc + f": the repeating stream ended after "
                                                f"{len(got)} of {take} requested examples", cfg))
                        continue
                    o = {"want": ref, "got": got, "mode": "periodic"}
                elif mode == "seq":
                    if ref is None:
                        ref = got
                        o = {"want": ids, "got": got, "mode": "bag"}
                        out["obs"].append(dict(o, what=desc + " (reference pass)", sessions=[]))
                        o = {"want": ref, "got": got, "mode": "seq+order",
                             "sessions": [v for _k, v in sorted(sessions[split].items())]}
                    else:
                        o = {"want": ref, "got": got, "mode": "seq+order",
                             "sessions": [v for _k, v in sorted(sessions[split].items())]}
                elif mode == "repeat":
                    if ref is None:
                        ref = readers.read_ids(handles["reopened"], "numpy", split, repeat=False, shuffle=0)
                    if len(got) != take:
                        out["problems"].append(("stream-ended", desc + f": the repeating stream ended after "
                                                f"{len(got)} of {take} requested examples", cfg))
                        continue
                    m = "periodic" if shuffle == 0 else ("epochs" if iface == "rust" else "member")
                    o = {"want": ref, "got": got, "mode": m}
                out["obs"].append(dict({"sessions": []}, **o, what=desc))
        # overlapping passes (a training pass and a held-out pass consumed in lock-step; the shorter one is restarted
        # while the longer one is still open): every completed pass must still yield exactly its split
        if mode == "bag" and task.get("lockstep") and len(committed) >= 2:
            order = sorted(committed, key=lambda s_: len(committed[s_]))
            small, large = order[0], order[-1]
            for iface in task["lockstep"]:
                if not readers.supports(iface, fmt, comp):
                    continue

                partial = {"passes": [], "error": None}

                def lock(partial=partial, iface=iface):
                    # the long pass carries a transformation of its own (tfdata has none to give), the short passes
                    # carry none: each pass must get exactly its own - applied once to every one of its examples
                    mark = (lambda ex: {"id": ex["id"] + 5000}) if iface != "tfdata" else None  # noqa: E731
                    big_raw = readers.iterate(handles["reopened"], iface, large, repeat=False, shuffle=0,
                                              file_parallelism=2, process_record=mark)

                    def unmarked(stream):
                        for ex_ in stream:
                            v_ = readers.ex_id(ex_)
                            if mark is not None:
                                if v_ < 5000 or v_ >= 10000:
                                    raise TransformMixup(f"the transformation of the long pass was applied "
                                                     f"{'twice' if v_ >= 10000 else 'not at all'} to example "
                                                     f"{v_ % 5000}")
                                v_ -= 5000
                            yield {"id": np.asarray([v_])}

                    big = unmarked(big_raw)
                    got_big = []
                    partial["passes"].append((large, got_big, False))
                    big_done = False
                    try:
                        for _pass in range(3):
                            it = readers.iterate(handles["reopened"], iface, small, repeat=False, shuffle=0,
                                                 file_parallelism=2)
                            got = []
                            partial["passes"].append((small, got, False))
                            for ex in it:
                                got.append(readers.ex_id(ex))
                                if got[-1] >= 5000:
                                    raise TransformMixup(f"a short pass yielded example {got[-1] - 5000} with the long "
                                                     f"pass' transformation applied")
                                if not big_done:
                                    try:
                                        got_big.append(readers.ex_id(next(big)))
                                    except StopIteration:
                                        big_done = True
                            partial["passes"][-1] = (small, got, True)
                        if not big_done:
                            got_big += [readers.ex_id(e) for e in big]
                        partial["passes"][0] = (large, got_big, True)
                    except TransformMixup as exc:
                        partial["mixup"] = str(exc)
                    except BaseException as exc:  # pylint: disable=broad-except
                        partial["error"] = f"{type(exc).__name__}: {str(exc)[:160]}"

                status, _val = _timed(lock)
                out["reads"] += 1
                desc = f"{fmt}/{comp} {task['history']} {iface}: passes over '{small}' and '{large}' consumed in lock-step"
                if status == "hang":
                    out["problems"].append(("hang", desc + ": no result within the watchdog", {"iface": iface}))
                    return out
                if partial.get("mixup"):
                    out["problems"].append(("process_record", desc + ": " + partial["mixup"], {"iface": iface}))
                if partial["error"]:
                    # a loud failure of overlapping passes is outside C02 (which speaks about what is yielded); what
                    # WAS yielded until then is still judged (nothing foreign, nothing twice)
                    out.setdefault("notes", []).append(desc + f": raised {partial['error']}")
                for split, got, complete in partial["passes"]:
                    out["obs"].append({"want": committed[split], "got": list(got),
                                       "mode": "bag" if complete else "partial", "sessions": [],
                                       "what": desc + f" (pass over {split}{'' if complete else ', stopped by the exception'})"})
        # two repeating streams alive at once, consumed alternately (training and validation streams)
        if mode == "repeat" and task.get("lockstep") and len(committed) >= 2:
            order = sorted(committed, key=lambda s_: len(committed[s_]))
            small, large = order[0], order[-1]
            for iface in task["lockstep"]:
                if not readers.supports(iface, fmt, comp):
                    continue
                for shuffle in (0, 2):
                    streams = {small: [], large: []}
                    err = {}

                    def both(streams=streams, iface=iface, shuffle=shuffle, err=err):
                        try:
                            a = readers.iterate(handles["reopened"], iface, small, repeat=True, shuffle=shuffle,
                                                file_parallelism=2)
                            b = readers.iterate(handles["reopened"], iface, large, repeat=True, shuffle=shuffle,
                                                file_parallelism=2)
                            for _k in range(3 * len(committed[large]) + 1):
                                streams[small].append(readers.ex_id(next(a)))
                                streams[large].append(readers.ex_id(next(b)))
                            for it in (a, b):
                                close = getattr(it, "close", None)
                                if close:
                                    close()
                        except BaseException as exc:  # pylint: disable=broad-except
                            err["e"] = f"{type(exc).__name__}: {str(exc)[:160]}"

                    status, _v = _timed(both)
                    out["reads"] += 1
                    desc = (f"{fmt}/{comp} {task['history']} {iface} shuffle={shuffle}: repeating streams over "
                            f"'{small}' and '{large}' consumed alternately")
                    if status == "hang":
                        out["problems"].append(("hang", desc + ": no result within the watchdog", {"iface": iface}))
                        return out
                    if err:
                        out.setdefault("notes", []).append(desc + f": raised {err['e']}")
                    for split in (small, large):
                        ref = readers.read_ids(handles["reopened"], "numpy", split, repeat=False, shuffle=0)
                        m = "member" if (err or shuffle) and iface != "rust" else ("periodic" if shuffle == 0 and not err
                                                                                     else "member")
                        if iface == "rust" and not err:
                            m = "epochs"
                        out["obs"].append({"want": ref, "got": list(streams[split]), "mode": m, "sessions": [],
                                           "what": desc + f" (stream over {split})"})
    except Exception:  # pylint: disable=broad-except
        out["error"] = traceback.format_exc()
    finally:
        shutil.rmtree(tmp, ignore_errors=True)
    return out


MANY_SHARDS = [("Create", []), ("BeginFiller", [[]])] + [("Write", [0, "train", "None", "good"]) for _ in range(36)] + \
              [("ExitFiller", [0]), ("SessionDone", [])]


def grid_tasks(ctx: Ctx, mode: str, configs, formats=None, lockstep=None):
    formats = formats or [("fb", ""), ("npz", ""), ("tfrec", ""), ("fb", "LZ4"), ("tfrec", "GZIP"), ("npz", "ZIP"),
                          ("fb", "GZIP")]
    if ctx.quick:
        formats = formats[:4]
    tasks = []
    for hi, (hname, labels) in enumerate(GRID_HISTORIES.items()):
        for fi, (fmt, comp) in enumerate(formats):
            if ctx.quick and (hi + fi) % 2 and hname != "nested_and_continued":
                continue
            tasks.append({"labels": labels, "history": hname, "fmt": fmt, "compression": comp, "mode": mode,
                          "configs": configs, "eps": 2 + (hi % 2), "lockstep": lockstep, "index": len(tasks)})
    return tasks


def judge_obs(ctx: Ctx, obs, prop: str, kind_of=lambda o: o["mode"]):
    if not obs:
        return 0
    n_false = 0
    for c0 in range(0, len(obs), 5000):
        chunk = obs[c0:c0 + 5000]
        d = ctx.tmp / f"reads_{c0}_{len(ctx.tlc_runs)}"
        d.mkdir(parents=True, exist_ok=True)
        of = d / "obs.json"
        of.write_text(json.dumps([{k: v for k, v in o.items() if k != "what"} for o in chunk]))
        cfg = tlc.make_cfg(d / "ev.cfg", spec="Spec", invariants=["Judge"])
        r = tlc.run("Reads_Eval", cfg, workers=1, coverage=False, cont=True, env={"OBS_FILE": str(of)}, timeout=3000)
        if r.distinct != len(chunk):
            raise MachineryError(f"Reads_Eval judged {r.distinct} of {len(chunk)}\n{r.out[-2000:]}")
        for p in r.prints:
            if isinstance(p, tuple) and p and p[0] == "FALSE":
                o = chunk[p[1] - 1]
                n_false += 1
                iface = next((i for i in ("numpy", "concurrent", "async", "rust", "tfdata") if f" {i} " in o["what"]),
                             "stage")
                ctx.violation(f"{prop}|kind={kind_of(o)}|iface={iface}",
                              f"{o['what']}: yielded {o['got'][:40]}, expected ({o['mode']}) {o['want'][:40]}",
                              {"observation": o})
    ctx.count("observations_judged_by_tlc", len(obs))
    return n_false


def run_grid(ctx: Ctx, prop: str, mode: str, configs, problem_kinds=("hang", "raised", "process_record", "stream-ended"),
             lockstep=None, many_shards_configs=None):
    from .. import rustext
    rustext.build()
    tasks = grid_tasks(ctx, mode, configs, lockstep=lockstep)
    if many_shards_configs:
        for fmt, comp in (("fb", ""), ("npz", ""), ("tfrec", "")) + (() if ctx.quick else (("fb", "LZ4"), ("tfrec", "GZIP"))):
            tasks.append({"labels": MANY_SHARDS, "history": "many_shards", "fmt": fmt, "compression": comp,
                          "mode": mode, "configs": many_shards_configs, "eps": 2, "lockstep": None,
                          "index": len(tasks)})
    try:
        outs = H.run_histories(tasks, fn=read_grid)
    finally:
        H.shutdown_pool()
    obs = []
    reads = 0
    for t, o in zip(tasks, outs):
        if o["error"]:
            raise MachineryError(o["error"])
        reads += o["reads"]
        for note in o.get("notes", []):
            if note not in ctx.notes:
                ctx.notes.append(note)
        for kind, what, cfg in o["problems"]:
            if kind in problem_kinds:
                ctx.violation(f"{prop}|kind={kind}|iface={cfg['iface']}", what,
                              {"task": {k: v for k, v in t.items() if k != "configs"}, "config": cfg})
        obs += o["obs"]
    n_false = judge_obs(ctx, obs, prop)
    ctx.cov["end_to_end_reads"] = reads
    ctx.cov["datasets"] = len(tasks)
    if obs:
        ctx.sample({"kind": "end-to-end read judged by TLC", "what": obs[len(obs) // 2]["what"],
                    "got": obs[len(obs) // 2]["got"][:30]})
    ctx.log(f"{reads} end-to-end reads on {len(tasks)} real datasets, {len(obs)} observations judged by TLC, "
            f"{n_false} false")
    return obs
