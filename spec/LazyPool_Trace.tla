---------------------------- MODULE LazyPool_Trace ----------------------------
(* Trace validation for LazyPool.tla: each recorded execution of the real pool (queue operations   *)
(* logged inside the queue mutex, function applications, yields) must be a behaviour of LazyPool.  *)
(* Many traces per TLC run: the trace id is chosen in the initial state; the longest matched       *)
(* prefix of every trace is kept in TLC register <id> and printed by the POSTCONDITION.           *)
EXTENDS LazyPool, Json, IOUtils, TLC, TLCExt

VARIABLES tid, l
tvars == <<vars, tid, l>>

TraceLogs == JsonDeserialize(IOEnv.TRACE_FILE)
Ev == TraceLogs[tid][l]
More == l <= Len(TraceLogs[tid])
EW == <<Ev.r, Ev.i>>

TInit == Init /\ tid \in 1..Len(TraceLogs) /\ l = 1 /\ TLCSet(tid, 1)

TCPut == /\ Ev.th = "c" /\ Ev.op = "put"
         /\ (CPrefillPut \/ CPutNext \/ CResetPut)
         /\ toProc'[rnd][Len(toProc'[rnd])] = Ev.x
TCGet == Ev.th = "c" /\ Ev.op = "get" /\ results[rnd] # <<>> /\ Head(results[rnd]) = Ev.x /\ CGet
TCYield == Ev.th = "c" /\ Ev.op = "yield" /\ cur = Ev.x /\ CYield
TCRound == Ev.th = "c" /\ Ev.op = "round" /\ CNextRound
TWGet == /\ Ev.th = "w" /\ Ev.op = "get" /\ EW \in W /\ toProc[Ev.r] # <<>> /\ Head(toProc[Ev.r]) = Ev.x
         /\ WGet(EW)
TWApply == Ev.th = "w" /\ Ev.op = "apply" /\ EW \in W /\ witem[EW] = Ev.x /\ WApply(EW)
TWPut == Ev.th = "w" /\ Ev.op = "put" /\ EW \in W /\ witem[EW] = Ev.x /\ (WPut(EW) \/ WFwd(EW))

TNext == /\ More
         /\ (TCPut \/ TCGet \/ TCYield \/ TCRound \/ TWGet \/ TWApply \/ TWPut)
         /\ l' = l + 1 /\ UNCHANGED tid
TSpec == TInit /\ [][TNext]_tvars

Reach == TLCSet(tid, IF TLCGet(tid) < l THEN l ELSE TLCGet(tid))
Report == \A t \in 1..Len(TraceLogs) : PrintT(<<"REACHED", t, TLCGet(t), Len(TraceLogs[t]) + 1>>)
===============================================================================
