------------------------------- MODULE Dataset -------------------------------
(***************************************************************************)
(* Writer side of sedpack: writing sessions (DatasetFiller), the recursive *)
(* shard-list merge, the description file, the multi-writer call, all at   *)
(* the granularity of single file-system effects, plus crash, an           *)
(* interleaved reader and the integrity check.                             *)
(*                                                                         *)
(* Code anchors: dataset_filler.py (write_example :121-178, close_shard    *)
(* :180-202, __exit__ :258-291), merge_shard_infos.py :24-117,             *)
(* shard_file_metadata.py (write_config :148-176, load_or_create :178-200),*)
(* dataset_writing.py (write_multiprocessing :45-141, write_config         *)
(* :158-199, check :201-273), utils.safe_update_file :93-134,              *)
(* dataset_base.py (_load :61-90, shard_info_iterator :131-165).           *)
(*                                                                         *)
(* Disk: files is a partial function from paths (tuples of strings) to     *)
(* contents.  <<"info">> is dataset_info.json; <<split, d1..dk, "list">>   *)
(* is a shards_list.json; <<split, d1..dk, "sh<i>">> a shard file;         *)
(* <<..., "tmp_<name>">> the temp file of an in-flight safe update.        *)
(* A digest is the content itself (perfect hash), so the metadata tree is  *)
(* literally a Merkle tree of nested records.                              *)
(***************************************************************************)
EXTENDS Naturals, Sequences, FiniteSets, TLC, SequencesExt, Functions

CONSTANTS Splits,       \* set of split names (strings)
          FillerDirs,   \* set of sub-directories (tuples of strings) a filler may use; <<>> is the root
          WriterNames,  \* sequence of fresh directory names used by successive multi-writer workers
          EPS,          \* examples_per_shard
          MDs,          \* custom-metadata values a write may carry: subset of {"None","A","B"}
          Kinds,        \* kinds of writes: subset of {"good","bad","badlate"}
          Streaming,    \* TRUE: tfrec-like (file created at the first write of a shard); FALSE: fb/npz-like
          Hashing,      \* at least one checksum algorithm configured
          Atomic,       \* TRUE: an API step applies all its file-system effects at once (history exploration)
          MaxSessions, MaxWrites, MaxK,
          Dedupe,       \* TRUE: merge skips children already in the update set (repaired); FALSE: defect D1
          EmptyRoll,    \* TRUE: a metadata change rolls over even an empty shard (defect D7)
          MdByRef,      \* TRUE: the open shard aliases the caller's metadata object (defect D3)
          UseRef,       \* histories may pass one mutable metadata object ("REF") and mutate it between writes
          Protocol,     \* "good" | "inplace" (metadata rewritten in place) | "list_first" (shard listed before it
                        \* is written): the two deviations only exist to show that C06 can fail (non-vacuity)
          CheckChildren, \* FALSE: the integrity check does not recurse into child lists (only to show C05 can fail)
          NoMkdir,      \* TRUE: directory creation is not modelled as an effect (trace validation mode)
          MaxAborts,    \* how many multi-writer calls may fail part-way (a writer's function raises)
          MaxCrashes,   \* how many crashes may be followed by a recovery (a new process opens the directory again)
          MaxMoves,     \* how often the dataset directory may be moved / copied elsewhere (C20)
          CrashOn, ReaderOn

VARIABLES files,     \* Path -> Content
          dirs,      \* set of existing directories (tuples of strings); <<>> is the dataset root
          mem,       \* the live handle's splits table, or NoHandle
          procs,     \* [0..MaxK -> Proc]: 0 = the main process, 1..MaxK = multi-writer workers
          ctl,       \* main control: [mode, k, ...]
          nextEx, nextShard, nsess,
          wlog,      \* history: every write attempt [id, sess, pid, split, md, kind, acc]
          done,      \* set of completed session numbers
          callerMd,  \* current value of the caller's mutable metadata object (MdByRef only)
          crashed, failed,
          rd         \* interleaved reader process
vars == <<files, dirs, mem, procs, ctl, nextEx, nextShard, nsess, wlog, done, callerMd, crashed, failed, rd>>

(* ---------------------------------------------------------------------------------------- *)
(* values                                                                                   *)
NoHandle == [none |-> TRUE]
TORN == [kind |-> "torn"]
UNKNOWN == [kind |-> "unknown"]
NoShard == [none |-> TRUE]
NotLoaded == [none |-> TRUE]
EmptyList == [kind |-> "list", n |-> 0, shards |-> <<>>, children |-> <<>>]
EmptyShardFile == [kind |-> "shard", ex |-> <<>>]
Digest(c) == IF Hashing THEN c ELSE <<>>
InfoFile(splits) == [kind |-> "info", splits |-> splits]
InfoPath == <<"info">>

Has(fs, p) == p \in DOMAIN fs
Put(fs, p, c) == (p :> c) @@ fs
Del(fs, p) == [q \in DOMAIN fs \ {p} |-> fs[q]]
IsList(c) == DOMAIN c = {"kind", "n", "shards", "children"} /\ c.kind = "list"
IsInfo(c) == DOMAIN c = {"kind", "splits"} /\ c.kind = "info"
IsShard(c) == DOMAIN c = {"kind", "ex"} /\ c.kind = "shard"

SumSeq(s, F(_)) == FoldLeft(LAMBDA acc, e : acc + F(e), 0, s)
ListPath(lp) == Append(lp, "list")                         \* lp = <<split>> \o dir
NShards(L) == Len(L.shards) + SumSeq(L.children, LAMBDA c : c.nsh)
InfoOf(lp, L) == [dir |-> lp, n |-> L.n, nsh |-> NShards(L), sum |-> Digest(L)]
DiskList(fs, lp) == IF Has(fs, ListPath(lp)) THEN fs[ListPath(lp)] ELSE EmptyList   \* load_or_create

(* ---------------------------------------------------------------------------------------- *)
(* file-system operations                                                                   *)
Parent(p) == SubSeq(p, 1, Len(p) - 1)
TmpOf(p) == Append(Parent(p), "tmp_" \o p[Len(p)])
RECURSIVE DirPrefixes(_)
DirPrefixes(d) == IF d = <<>> THEN {<<>>} ELSE {d} \cup DirPrefixes(Parent(d))

MkdirP(d) == IF NoMkdir THEN <<>> ELSE <<[op |-> "mkdir", p |-> d]>>                  \* mkdir(parents=True, exist_ok=True)
\* open(p, "w"/"wb") ; write ; close : the file exists empty, then partially, then fully written
WriteOps(p, c) == << [op |-> "create", p |-> p], [op |-> "wpart", p |-> p], [op |-> "wfull", p |-> p, c |-> c] >>
\* utils.safe_update_file: mkdir parent ; temp file ; rename over the target
SafeUpdate(p, c) == IF Protocol = "inplace" THEN MkdirP(Parent(p)) \o WriteOps(p, c)
                    ELSE MkdirP(Parent(p)) \o WriteOps(TmpOf(p), c) \o << [op |-> "rename", p |-> TmpOf(p), q |-> p] >>

ApplyFiles(fs, o) ==
    CASE o.op = "mkdir"   -> fs
      [] o.op = "create"  -> Put(fs, o.p, IF "c" \in DOMAIN o THEN o.c ELSE TORN)
      [] o.op = "wpart"   -> Put(fs, o.p, TORN)
      [] o.op = "wfull"   -> Put(fs, o.p, o.c)
      [] o.op = "rename"  -> Put(Del(fs, o.p), o.q, fs[o.p])
ApplyDirs(ds, o) == IF o.op = "mkdir" THEN ds \cup DirPrefixes(o.p) ELSE ds
ApplyAllFiles(fs, ops) == FoldLeft(ApplyFiles, fs, ops)
ApplyAllDirs(ds, ops) == FoldLeft(ApplyDirs, ds, ops)

(* ---------------------------------------------------------------------------------------- *)
(* the recursive merge (merge_shard_infos.py), returning the ordered write obligations      *)
RECURSIVE Groups(_, _, _)
Groups(ds, k, acc) ==             \* ordered distinct (k+1)-th components  (defaultdict insertion order)
    IF ds = <<>> THEN acc
    ELSE LET nm == Head(ds)[k + 1]
         IN Groups(Tail(ds), k, IF \E i \in 1..Len(acc) : acc[i] = nm THEN acc ELSE Append(acc, nm))

RECURSIVE Merge(_, _, _)
RECURSIVE MergeGroups(_, _, _, _, _, _)
\* fs: logical disk ; upd: Seq of list locations ; p: common prefix (a list location itself)
\* result: [ok, fs, info, writes]  -- writes = ordered <<[p, c]>> of safe updates performed
MergeGroups(fs, deeper, p, gs, infos, writes) ==
    IF gs = <<>> THEN [ok |-> TRUE, fs |-> fs, infos |-> infos, writes |-> writes]
    ELSE LET nm == Head(gs)
             sub == SelectSeq(deeper, LAMBDA d : d[Len(p) + 1] = nm)
             r == Merge(fs, sub, Append(p, nm))
         IN IF ~r.ok THEN [ok |-> FALSE, fs |-> r.fs, infos |-> infos, writes |-> writes \o r.writes]
            ELSE MergeGroups(r.fs, deeper, p, Tail(gs), Append(infos, r.info), writes \o r.writes)
Merge(fs, upd, p) ==
    LET root == DiskList(fs, p)                                                        \* :56-61
        cur == SelectSeq(upd, LAMBDA d : Len(d) = Len(p))                              \* :64-67
        deep0 == SelectSeq(upd, LAMBDA d : Len(d) > Len(p))                            \* :68-71
        kids == [i \in 1..Len(root.children) |-> root.children[i].dir]
        kidsToAdd == IF Dedupe THEN SelectSeq(kids, LAMBDA kd : ~\E i \in 1..Len(deep0) : deep0[i] = kd)
                     ELSE kids
        deeper == deep0 \o kidsToAdd                                                   \* :82-85
        root1 == [root EXCEPT !.n = @ - SumSeq(root.children, LAMBDA c : c.n), !.children = <<>>]
        gs == Groups(deeper, Len(p), <<>>)                                             \* :89-96
    IN IF Len(cur) > 1 THEN [ok |-> FALSE, fs |-> fs, info |-> InfoOf(p, root), writes |-> <<>>]   \* assert :78
       ELSE LET mg == MergeGroups(fs, deeper, p, gs, <<>>, <<>>)
            IN IF ~mg.ok THEN [ok |-> FALSE, fs |-> mg.fs, info |-> InfoOf(p, root), writes |-> mg.writes]
               ELSE LET root2 == [root1 EXCEPT !.children = mg.infos,
                                               !.n = @ + SumSeq(mg.infos, LAMBDA c : c.n)]          \* :109-111
                    IN [ok |-> TRUE, fs |-> Put(mg.fs, ListPath(p), root2), info |-> InfoOf(p, root2),
                        writes |-> Append(mg.writes, [p |-> ListPath(p), c |-> root2])]             \* :114-117

\* DatasetWriting.write_config: group by split (insertion order), merge each, update the table, write the info
RECURSIVE WriteConfigSplits(_, _, _, _, _)
WriteConfigSplits(fs, tbl, upd, ss, writes) ==
    IF ss = <<>> THEN [ok |-> TRUE, fs |-> fs, tbl |-> tbl, writes |-> writes]
    ELSE LET s == Head(ss)
             r == Merge(fs, SelectSeq(upd, LAMBDA d : d[1] = s), <<s>>)
         IN IF ~r.ok THEN [ok |-> FALSE, fs |-> r.fs, tbl |-> tbl, writes |-> writes \o r.writes]
            ELSE WriteConfigSplits(r.fs, (s :> [n |-> r.info.n, nsh |-> r.info.nsh, sum |-> r.info.sum]) @@ tbl,
                                   upd, Tail(ss), writes \o r.writes)
WriteConfig(fs, tbl, upd) ==
    LET ss == Groups(upd, 0, <<>>)
        r == WriteConfigSplits(fs, tbl, upd, ss, <<>>)
    IN IF ~r.ok THEN r
       ELSE [ok |-> TRUE, fs |-> Put(r.fs, InfoPath, InfoFile(r.tbl)), tbl |-> r.tbl,
             writes |-> Append(r.writes, [p |-> InfoPath, c |-> InfoFile(r.tbl)])]

RECURSIVE WritesToOps(_)
WritesToOps(ws) == IF ws = <<>> THEN <<>> ELSE SafeUpdate(Head(ws).p, Head(ws).c) \o WritesToOps(Tail(ws))

(* ---------------------------------------------------------------------------------------- *)
(* processes                                                                                *)
P == 0..MaxK
IdleProc == [active |-> FALSE, sess |-> 0, dir |-> <<>>, auto |-> TRUE,
             open |-> [s \in Splits |-> NoShard], oorder |-> <<>>,
             lists |-> [s \in Splits |-> NotLoaded], lorder |-> <<>>,
             nw |-> 0, todo |-> <<>>, state |-> "idle", updated |-> <<>>]
IdleCtl(u) == [mode |-> "idle", k |-> 0, used |-> u, loc |-> ctl.loc, cr |-> ctl.cr, ab |-> ctl.ab]

ShardPath(pr, s, id) == <<s>> \o pr.dir \o <<"sh" \o ToString(id)>>
LP(pr, s) == <<s>> \o pr.dir

Init == /\ files = <<>> /\ dirs = {}
        /\ mem = NoHandle
        /\ procs = [p \in P |-> IdleProc]
        /\ ctl = [mode |-> "idle", k |-> 0, used |-> 0, loc |-> 0, cr |-> 0, ab |-> 0]
        /\ nextEx = 1 /\ nextShard = 1 /\ nsess = 0
        /\ wlog = <<>> /\ done = {}
        /\ callerMd = "A"
        /\ crashed = FALSE /\ failed = FALSE
        /\ rd = [pc |-> "off"]

Running == ~crashed /\ ~failed
NoTodo == \A p \in P : procs[p].todo = <<>>
Quiescent == Running /\ ctl.mode = "idle" /\ NoTodo /\ Has(files, InfoPath)

\* Give a process a batch of file-system effects: applied at once (Atomic) or queued one by one.
Effects(p, pr, ops) ==
    IF Atomic
    THEN /\ files' = ApplyAllFiles(files, ops) /\ dirs' = ApplyAllDirs(dirs, ops)
         /\ procs' = [procs EXCEPT ![p] = pr]
    ELSE /\ procs' = [procs EXCEPT ![p] = [pr EXCEPT !.todo = @ \o ops]]
         /\ UNCHANGED <<files, dirs>>

\* one file-system effect of process p
FSStep(p) ==
    /\ Running /\ ~Atomic /\ procs[p].todo # <<>>
    /\ LET o == Head(procs[p].todo) IN
         /\ files' = ApplyFiles(files, o) /\ dirs' = ApplyDirs(dirs, o)
         /\ procs' = [procs EXCEPT ![p].todo = Tail(@)]
    /\ UNCHANGED <<mem, ctl, nextEx, nextShard, nsess, wlog, done, callerMd, crashed, failed, rd>>

(* ---- Dataset.create / open ---------------------------------------------------------------- *)
Create ==
    /\ Running /\ ctl.mode = "idle" /\ NoTodo /\ ~Has(files, InfoPath) /\ mem = NoHandle
    /\ mem' = <<>>
    /\ Effects(0, procs[0], MkdirP(<<>>) \o SafeUpdate(InfoPath, InfoFile(<<>>)))
    /\ UNCHANGED <<ctl, nextEx, nextShard, nsess, wlog, done, callerMd, crashed, failed, rd>>

\* Dataset(path): the handle is rebuilt from the description on disk
Open ==
    /\ Quiescent /\ IsInfo(files[InfoPath])
    /\ mem # files[InfoPath].splits          \* (a no-op reopen is not a step)
    /\ mem' = files[InfoPath].splits
    /\ UNCHANGED <<files, dirs, procs, ctl, nextEx, nextShard, nsess, wlog, done, callerMd, crashed, failed, rd>>

\* The dataset directory is moved or copied to another location (C20).  Every path in the metadata is relative
\* to the root, so nothing in `files` changes; a handle opened at the old location is dropped and the dataset is
\* opened again where it now lives.  That all properties stay invariant across Relocate IS the statement
\* "opens, verifies, iterates and accepts further writing exactly as before".
Relocate ==
    /\ Quiescent /\ ctl.loc < MaxMoves /\ mem # NoHandle
    /\ ctl' = [ctl EXCEPT !.loc = @ + 1]
    /\ mem' = NoHandle
    /\ UNCHANGED <<files, dirs, procs, nextEx, nextShard, nsess, wlog, done, callerMd, crashed, failed, rd>>

(* ---- filler sessions ------------------------------------------------------------------------ *)
BeginFiller(d) ==
    /\ Quiescent /\ mem # NoHandle /\ nsess < MaxSessions
    /\ nsess' = nsess + 1
    /\ procs' = [procs EXCEPT ![0] = [IdleProc EXCEPT !.active = TRUE, !.sess = nsess + 1, !.dir = d,
                                                      !.auto = TRUE, !.state = "writing"]]
    /\ ctl' = [ctl EXCEPT !.mode = "filler"]
    /\ UNCHANGED <<files, dirs, mem, nextEx, nextShard, wlog, done, callerMd, crashed, failed, rd>>

\* Shard.close + filler.close_shard for the open shard of split s: ops and the new in-memory list
CloseShard(pr, fs, s) ==
    LET sh == pr.open[s]
        path == ShardPath(pr, s, sh.id)
        content == [kind |-> "shard", ex |-> sh.ex]
        md == IF MdByRef /\ sh.md = "REF" THEN callerMd ELSE sh.md
        fileOps == IF Streaming THEN << [op |-> "wpart", p |-> path], [op |-> "wfull", p |-> path, c |-> content] >>
                   ELSE WriteOps(path, content)
        l0 == IF pr.lists[s] = NotLoaded THEN DiskList(fs, LP(pr, s)) ELSE pr.lists[s]
        l1 == [l0 EXCEPT !.shards = Append(@, [id |-> path, n |-> Len(sh.ex), md |-> md, sum |-> Digest(content)]),
                         !.n = @ + Len(sh.ex)]
    IN [ok |-> sh.ex # <<>>,        \* closing a shard that never received an example raises (D7)
        ops |-> IF sh.ex = <<>> THEN <<>>
                ELSE IF Protocol = "list_first" THEN SafeUpdate(ListPath(LP(pr, s)), l1) \o fileOps
                ELSE fileOps \o SafeUpdate(ListPath(LP(pr, s)), l1),
        pr |-> [pr EXCEPT !.lists[s] = l1,
                          !.lorder = IF pr.lists[s] = NotLoaded THEN Append(@, s) ELSE @]]

NewShard(pr, s, id) ==
    [pr EXCEPT !.open[s] = [id |-> id, ex |-> <<>>, md |-> "None", created |-> FALSE],
               !.oorder = IF pr.open[s] = NoShard THEN Append(@, s) ELSE @]

MdChanged(prev, md) == md # "None" /\ prev # "None" /\ md # prev
EffMd(md) == IF md = "REF" THEN callerMd ELSE md

\* _DatasetFillerContext.write_example
Write(p, s, md, kind) ==
    /\ Running /\ procs[p].active /\ procs[p].state = "writing" /\ procs[p].todo = <<>>
    /\ procs[p].nw < MaxWrites
    /\ (md = "REF") => (UseRef /\ p = 0)
    /\ (kind = "badlate") => Streaming
    /\ LET pr0 == procs[p]
           fresh == pr0.open[s] = NoShard
           pr1 == IF fresh THEN NewShard(pr0, s, nextShard) ELSE pr0                       \* :146-148
           mk == IF fresh THEN MkdirP(LP(pr0, s)) ELSE <<>>                                  \* shard_writer_base:46
           sh1 == pr1.open[s]
           prevMd == IF sh1.md = "REF" THEN callerMd ELSE sh1.md
           changed == MdChanged(prevMd, EffMd(md))                                          \* :152-158
           roll == (Len(sh1.ex) >= EPS) \/ (changed /\ (EmptyRoll \/ Len(sh1.ex) > 0))       \* :162-163
           cl == IF roll THEN CloseShard(pr1, files, s) ELSE [ok |-> TRUE, ops |-> <<>>, pr |-> pr1]
           nid == IF fresh THEN nextShard + 1 ELSE nextShard
           pr2 == IF roll THEN NewShard(cl.pr, s, nid) ELSE cl.pr                            \* :166-167
           mk2 == IF roll THEN MkdirP(LP(pr0, s)) ELSE <<>>
           sh2 == pr2.open[s]
           stored == IF md = "REF" /\ ~MdByRef THEN callerMd ELSE md     \* copy (repaired) or alias (D3)
           sh3 == IF md # "None" THEN [sh2 EXCEPT !.md = stored] ELSE sh2                    \* :170-171
           path == ShardPath(pr2, s, sh3.id)
           touch == Streaming /\ ~sh3.created /\ kind # "bad"       \* tfrec: writer object opens the file
           createOp == IF touch THEN << [op |-> "create", p |-> path, c |-> EmptyShardFile] >> ELSE <<>>
           acc == kind = "good"
           sh4 == [sh3 EXCEPT !.created = (@ \/ touch), !.ex = IF acc THEN Append(@, nextEx) ELSE @]
           pr3 == [pr2 EXCEPT !.open[s] = sh4, !.nw = @ + 1]
       IN /\ nextShard' = IF roll THEN nid + 1 ELSE nid
          /\ IF ~cl.ok
             THEN \* the roll-over raised: the exception leaves the with-block; __exit__ still runs.
                  /\ failed' = TRUE
                  /\ Effects(p, [cl.pr EXCEPT !.nw = @ + 1], mk \o cl.ops)
                  /\ wlog' = Append(wlog, [id |-> nextEx, sess |-> pr0.sess, pid |-> p, split |-> s, md |-> EffMd(md),
                                           kind |-> kind, acc |-> FALSE])
             ELSE /\ failed' = failed
                  /\ Effects(p, pr3, mk \o cl.ops \o mk2 \o createOp)
                  /\ wlog' = Append(wlog, [id |-> nextEx, sess |-> pr0.sess, pid |-> p, split |-> s, md |-> EffMd(md),
                                           kind |-> kind, acc |-> acc])
    /\ nextEx' = nextEx + 1
    /\ UNCHANGED <<mem, ctl, nsess, done, callerMd, crashed, rd>>

\* the caller mutates the object it passed as custom_metadata (only meaningful with MdByRef)
MutateCaller ==
    /\ Running /\ UseRef /\ ctl.mode = "filler" /\ procs[0].state = "writing" /\ procs[0].todo = <<>>
    /\ callerMd' = IF callerMd = "A" THEN "B" ELSE "A"
    /\ UNCHANGED <<files, dirs, mem, procs, ctl, nextEx, nextShard, nsess, wlog, done, crashed, failed, rd>>

\* DatasetFiller.__exit__: close shards with examples (dict order), _update_infos, [write_config]
RECURSIVE CloseAll(_, _, _, _)
CloseAll(pr, fs, ss, ops) ==
    IF ss = <<>> THEN [pr |-> pr, ops |-> ops, fs |-> fs]
    ELSE LET s == Head(ss) IN
         IF pr.open[s] # NoShard /\ pr.open[s].ex # <<>>
         THEN LET c == CloseShard(pr, fs, s)
              IN CloseAll([c.pr EXCEPT !.open[s] = NoShard], ApplyAllFiles(fs, c.ops), Tail(ss), ops \o c.ops)
         ELSE CloseAll(pr, fs, Tail(ss), ops)
RECURSIVE UpdateInfos(_, _, _, _)
UpdateInfos(pr, fs, ss, ops) ==          \* rewrite every loaded list (now with hashes), remember the location
    IF ss = <<>> THEN [ops |-> ops, fs |-> fs]
    ELSE LET s == Head(ss)
             w == SafeUpdate(ListPath(LP(pr, s)), pr.lists[s])
         IN UpdateInfos(pr, ApplyAllFiles(fs, w), Tail(ss), ops \o w)

ExitFiller(p) ==
    /\ Running /\ procs[p].active /\ procs[p].state = "writing" /\ procs[p].todo = <<>>
    /\ LET pr0 == procs[p]
           ca == CloseAll(pr0, files, pr0.oorder, <<>>)
           ui == UpdateInfos(ca.pr, ca.fs, ca.pr.lorder, <<>>)
           upd == [i \in 1..Len(ca.pr.lorder) |-> LP(pr0, ca.pr.lorder[i])]
           wc == IF pr0.auto THEN WriteConfig(ui.fs, mem, upd)
                 ELSE [ok |-> TRUE, fs |-> ui.fs, tbl |-> mem, writes |-> <<>>]
           ops == ca.ops \o ui.ops \o WritesToOps(wc.writes)
           pr1 == [IdleProc EXCEPT !.sess = pr0.sess, !.updated = upd, !.dir = pr0.dir,
                                   !.state = IF p = 0 THEN "idle" ELSE "finished"]
       IN /\ Effects(p, pr1, ops)
          /\ mem' = IF pr0.auto /\ wc.ok THEN wc.tbl ELSE mem
          /\ failed' = (failed \/ ~wc.ok)
          /\ ctl' = IF p = 0 THEN [ctl EXCEPT !.mode = "exiting"] ELSE ctl
    /\ UNCHANGED <<nextEx, nextShard, nsess, wlog, done, callerMd, crashed, rd>>

\* __exit__ returns: every effect of the session is on disk, the session is committed
SessionDone ==
    /\ Running /\ ctl.mode = "exiting" /\ NoTodo
    /\ done' = done \cup {nsess}
    /\ ctl' = IdleCtl(ctl.used)
    /\ UNCHANGED <<files, dirs, mem, procs, nextEx, nextShard, nsess, wlog, callerMd, crashed, failed, rd>>

(* ---- write_multiprocessing -------------------------------------------------------------------- *)
\* K DatasetFiller objects with fresh directory names, auto_update_dataset = False, one process each
MultiBegin(K) ==
    /\ Quiescent /\ mem # NoHandle /\ nsess < MaxSessions /\ K \in 1..MaxK
    /\ ctl.used + K <= Len(WriterNames)
    /\ nsess' = nsess + 1
    /\ procs' = [p \in P |-> IF p \in 1..K
                             THEN [IdleProc EXCEPT !.active = TRUE, !.sess = nsess + 1, !.auto = FALSE,
                                                   !.dir = <<WriterNames[ctl.used + p]>>, !.state = "writing"]
                             ELSE procs[p]]
    /\ ctl' = [mode |-> "multi", k |-> K, used |-> ctl.used + K, loc |-> ctl.loc, cr |-> ctl.cr, ab |-> ctl.ab]
    /\ UNCHANGED <<files, dirs, mem, nextEx, nextShard, wlog, done, callerMd, crashed, failed, rd>>

\* the parent collects get_updated_infos() in argument order and calls write_config (:128-134)
RECURSIVE ConcatUpdated(_, _)
ConcatUpdated(k, K) == IF k > K THEN <<>> ELSE procs[k].updated \o ConcatUpdated(k + 1, K)
MultiEnd ==
    /\ Running /\ ctl.mode = "multi" /\ NoTodo
    /\ \A p \in 1..ctl.k : procs[p].state = "finished"
    /\ LET upd == ConcatUpdated(1, ctl.k)
           wc == WriteConfig(files, mem, upd)
       IN /\ Effects(0, procs[0], WritesToOps(wc.writes))
          /\ mem' = IF wc.ok THEN wc.tbl ELSE mem
          /\ failed' = (failed \/ ~wc.ok)
    /\ ctl' = [ctl EXCEPT !.mode = "multiend"]
    /\ UNCHANGED <<nextEx, nextShard, nsess, wlog, done, callerMd, crashed, rd>>
\* The multi-writer call fails: writer j's function raises after its filler has been closed (the other writers
\* are in any state: with a process pool they are terminated wherever they are - their pending effects are dropped,
\* possibly leaving torn unlisted files - and in a plain loop the later ones were never run).  The parent never merges: the call raises, the directories
\* and lists of the writers stay on disk as orphans that nothing references, the session is not committed, and the
\* program goes on (typically: the call is retried - with fresh writer directories).
MultiAbort(j) ==
    /\ Running /\ ctl.mode = "multi" /\ j \in 1..ctl.k /\ ctl.ab < MaxAborts
    /\ procs[j].state = "finished" /\ procs[j].todo = <<>> /\ procs[0].todo = <<>>
    \* history-level exploration (Atomic) follows the plain loop of single_process=True, which the history replays
    \* use: writers before j have finished, writers after j were never run; at file-system granularity the call
    \* is the process pool's, where the other writers are terminated in whatever state they are
    /\ Atomic => /\ \A p \in 1..j : procs[p].state = "finished"
                 /\ \A p \in (j + 1)..ctl.k : procs[p].state = "writing" /\ procs[p].nw = 0
    /\ procs' = [p \in P |-> IF p = 0 THEN procs[0] ELSE IdleProc]
    /\ ctl' = [mode |-> "idle", k |-> 0, used |-> ctl.used, loc |-> ctl.loc, cr |-> ctl.cr, ab |-> ctl.ab + 1]
    /\ UNCHANGED <<files, dirs, mem, nextEx, nextShard, nsess, wlog, done, callerMd, crashed, failed, rd>>

\* workers' process records are forgotten once the parent's effects are on disk
MultiDone ==
    /\ Running /\ ctl.mode = "multiend" /\ NoTodo
    /\ procs' = [p \in P |-> IF p = 0 THEN procs[0] ELSE IdleProc]
    /\ ctl' = IdleCtl(ctl.used)
    /\ done' = done \cup {nsess}
    /\ UNCHANGED <<files, dirs, mem, nextEx, nextShard, nsess, wlog, callerMd, crashed, failed, rd>>

(* ---- crash ------------------------------------------------------------------------------------ *)
Crash ==
    /\ CrashOn /\ Running /\ (ctl.mode # "idle" \/ ~NoTodo)
    /\ crashed' = TRUE
    /\ UNCHANGED <<files, dirs, mem, procs, ctl, nextEx, nextShard, nsess, wlog, done, callerMd, failed, rd>>

\* Recovery: the crashed process and everything it held in memory (handle, open shards, pending effects) is gone; a new
\* process finds the directory as the crash left it (leftover temp files, unlisted shard files, lists that are ahead
\* of their parents) and may open it and go on writing.  The crashed session never counts as committed.
Recover ==
    /\ crashed /\ ~failed /\ ctl.cr < MaxCrashes
    /\ crashed' = FALSE
    /\ procs' = [p \in P |-> IdleProc]
    /\ ctl' = [mode |-> "idle", k |-> 0, used |-> ctl.used, loc |-> ctl.loc, cr |-> ctl.cr + 1, ab |-> ctl.ab]
    /\ mem' = NoHandle
    /\ UNCHANGED <<files, dirs, nextEx, nextShard, nsess, wlog, done, callerMd, failed, rd>>

(* ---------------------------------------------------------------------------------------- *)
(* what a reader sees                                                                       *)
Intact(fs, p) == Has(fs, p) /\ fs[p] # TORN
\* dataset_base._shard_info_iterator: own shard entries in list order, then the children depth-first.
\* Returns a sequence of entries; an unreadable list yields the marker [bad |-> path].
RECURSIVE WalkList(_, _, _)
WalkList(fs, lp, fuel) ==
    IF fuel = 0 THEN <<[bad |-> lp]>>
    ELSE IF ~Intact(fs, ListPath(lp)) \/ ~IsList(fs[ListPath(lp)]) THEN <<[bad |-> lp]>>
    ELSE LET L == fs[ListPath(lp)]
         IN L.shards \o FoldLeft(LAMBDA acc, ch : acc \o WalkList(fs, ch.dir, fuel - 1), <<>>, L.children)
InfoSplits(fs) == IF Intact(fs, InfoPath) /\ IsInfo(fs[InfoPath]) THEN fs[InfoPath].splits ELSE <<>>
ShardEntries(fs, s) == IF s \in DOMAIN InfoSplits(fs) THEN WalkList(fs, <<s>>, 6) ELSE <<>>
IsBad(e) == "bad" \in DOMAIN e
ShardOK(fs, e) == ~IsBad(e) /\ Intact(fs, e.id) /\ IsShard(fs[e.id])
\* examples returned by a full unshuffled pass over split s (0 marks an unreadable piece)
ReadSplit(fs, s) ==
    FoldLeft(LAMBDA acc, e : acc \o (IF ShardOK(fs, e) THEN fs[e.id].ex ELSE <<0>>), <<>>, ShardEntries(fs, s))
SeqSet(q) == {q[i] : i \in 1..Len(q)}
IsSubSeq(a, b) ==       \* a is a (not necessarily contiguous) subsequence of b; both duplicate-free here
    /\ SeqSet(a) \subseteq SeqSet(b)
    /\ \A i, j \in 1..Len(a) : i < j =>
          (CHOOSE x \in 1..Len(b) : b[x] = a[i]) < (CHOOSE y \in 1..Len(b) : b[y] = a[j])

AcceptedIds(s) == {wlog[i].id : i \in {j \in 1..Len(wlog) : wlog[j].acc /\ wlog[j].split = s}}
CommittedSeq(s) == SelectSeq(wlog, LAMBDA w : w.acc /\ w.split = s /\ w.sess \in done)
CommittedIds(s) == {CommittedSeq(s)[i].id : i \in 1..Len(CommittedSeq(s))}

\* every list reachable from the description
RECURSIVE ReachLists(_, _, _)
ReachLists(fs, lp, fuel) ==
    IF fuel = 0 \/ ~Intact(fs, ListPath(lp)) \/ ~IsList(fs[ListPath(lp)]) THEN {lp}
    ELSE {lp} \cup UNION {ReachLists(fs, fs[ListPath(lp)].children[i].dir, fuel - 1) :
                          i \in 1..Len(fs[ListPath(lp)].children)}
AllReachLists(fs) == UNION {ReachLists(fs, <<s>>, 6) : s \in DOMAIN InfoSplits(fs)}

(* ---- the integrity check (dataset_writing.py:201-273) ----------------------------------------- *)
RECURSIVE CheckList(_, _, _, _)
CheckList(fs, lp, sum, fuel) ==           \* _check_shard_list_info
    /\ fuel > 0
    /\ Has(fs, ListPath(lp))
    /\ Digest(fs[ListPath(lp)]) = sum
    /\ IsList(fs[ListPath(lp)])
    /\ CheckChildren => \A i \in 1..Len(fs[ListPath(lp)].children) :
          CheckList(fs, fs[ListPath(lp)].children[i].dir, fs[ListPath(lp)].children[i].sum, fuel - 1)
Check(tbl, fs) ==
    /\ \A s \in DOMAIN tbl : CheckList(fs, <<s>>, tbl[s].sum, 6)
    /\ \A s \in DOMAIN tbl :
          LET es == WalkList(fs, <<s>>, 6) IN
          \A i \in 1..Len(es) : /\ ~IsBad(es[i]) /\ Has(fs, es[i].id) /\ Digest(fs[es[i].id]) = es[i].sum

(* ---------------------------------------------------------------------------------------- *)
(* properties                                                                               *)
NoSessionFails == ~failed
\* The exactness / integrity / shard-layout properties speak about histories of successfully completed sessions; after a
\* crash they are not demanded (a list may be ahead of its parent until the split is written again).  What IS demanded
\* after a recovery is C06_CrashSafe in every state (nothing committed is lost, only whole accepted examples are read,
\* nothing twice) and that later sessions do not raise (NoSessionFails).
Pristine == ctl.cr = 0 /\ ~crashed

\* C04: the metadata tree is exact at quiescent states
RECURSIVE ExactList(_, _, _)
ExactList(fs, lp, fuel) ==
    /\ fuel > 0 /\ Intact(fs, ListPath(lp)) /\ IsList(fs[ListPath(lp)])
    /\ LET L == fs[ListPath(lp)] IN
        /\ L.n = SumSeq(L.shards, LAMBDA e : e.n) + SumSeq(L.children, LAMBDA c : c.n)
        /\ \A i \in 1..Len(L.shards) :
              LET e == L.shards[i] IN
              /\ Intact(fs, e.id) /\ IsShard(fs[e.id]) /\ e.n = Len(fs[e.id].ex)
              /\ Parent(e.id) = lp                                   \* the file lies beside the list naming it
        /\ \A i \in 1..Len(L.children) :
              LET c == L.children[i] IN
              /\ Parent(c.dir) = lp                                  \* child lists live in direct sub-directories
              /\ Intact(fs, ListPath(c.dir)) /\ IsList(fs[ListPath(c.dir)])
              /\ c = InfoOf(c.dir, fs[ListPath(c.dir)])
              /\ ExactList(fs, c.dir, fuel - 1)
AllShardEntries(fs) == FoldLeft(LAMBDA acc, s : acc \o ShardEntries(fs, s), <<>>, SetToSeq(DOMAIN InfoSplits(fs)))
NoDupSeq(q) == \A i, j \in 1..Len(q) : i # j => q[i] # q[j]
ShardFilePaths(fs) == {p \in DOMAIN fs : fs[p] # TORN /\ IsShard(fs[p]) /\ fs[p].ex # <<>>}
C04_ExactAt(fs, tbl) ==
    /\ IsInfo(fs[InfoPath])
    /\ \A s \in DOMAIN fs[InfoPath].splits :
          /\ ExactList(fs, <<s>>, 6)
          /\ fs[InfoPath].splits[s] = [n |-> fs[ListPath(<<s>>)].n, nsh |-> NShards(fs[ListPath(<<s>>)]),
                                      sum |-> Digest(fs[ListPath(<<s>>)])]
    /\ LET es == AllShardEntries(fs) IN
          /\ \A i \in 1..Len(es) : ~IsBad(es[i])
          /\ NoDupSeq([i \in 1..Len(es) |-> es[i].id])              \* no shard file listed twice
          /\ (ctl.ab = 0) => ShardFilePaths(fs) \subseteq {es[i].id : i \in 1..Len(es)}   \* none left unlisted
                                                       \* (a failed multi-writer call leaves unreferenced orphans)
    /\ tbl = fs[InfoPath].splits                                    \* handle = what a fresh open reads
C04_Exact == Pristine /\ Quiescent /\ mem # NoHandle => C04_ExactAt(files, mem)

\* C05 (pass direction): the integrity check passes at quiescent states
C05_Pass == Pristine /\ Quiescent /\ mem # NoHandle => Check(mem, files)

\* C08: continued writing is append-only
C08_AppendOnlyAt(fs) ==
    \A s \in Splits : /\ NoDupSeq(ReadSplit(fs, s))
                      /\ SeqSet(ReadSplit(fs, s)) = CommittedIds(s)
C08_AppendOnly == Pristine /\ Quiescent => C08_AppendOnlyAt(files)

\* C03 (write side): within one session (multi-writer: writers in argument order) write order is kept
SessionSeq(s, k) == LET q == SelectSeq(wlog, LAMBDA w : w.acc /\ w.split = s /\ w.sess = k)
                        byPid == SortSeq(q, LAMBDA a, b : a.pid < b.pid \/ (a.pid = b.pid /\ a.id < b.id))
                    IN [i \in 1..Len(byPid) |-> byPid[i].id]
C03_WriteOrderAt(fs) == \A s \in Splits : \A k \in done : IsSubSeq(SessionSeq(s, k), ReadSplit(fs, s))
C03_WriteOrder == Pristine /\ Quiescent => C03_WriteOrderAt(files)

\* C10: shard sizes
ShardOfEx(fs, s, id) == LET es == ShardEntries(fs, s)
                            hit == {i \in 1..Len(es) : ShardOK(fs, es[i]) /\ id \in SeqSet(fs[es[i].id].ex)}
                        IN IF hit = {} THEN NoShard ELSE es[CHOOSE i \in hit : TRUE]
C10_SizeAt(fs) ==
    /\ \A s \in DOMAIN InfoSplits(fs) : \A i \in 1..Len(ShardEntries(fs, s)) :
          LET e == ShardEntries(fs, s)[i] IN ~IsBad(e) => (e.n >= 1 /\ e.n <= EPS)
    \* consecutive accepted writes of one session/process/split that lie in different shards: the earlier shard
    \* is full unless a write attempt in between (accepted or rejected, up to and including the later write)
    \* asked for different shard-level metadata
    /\ \A s \in Splits : \A k \in done :
          LET att == SelectSeq(wlog, LAMBDA w : w.split = s /\ w.sess = k)
              q == SelectSeq(att, LAMBDA w : w.acc) IN
          \A i \in 1..Len(q) : \A j \in 1..Len(q) :
             (i < j /\ q[i].pid = q[j].pid /\ ~\E m \in 1..Len(q) : q[m].pid = q[i].pid /\ q[i].id < q[m].id /\ q[m].id < q[j].id)
             => LET a == ShardOfEx(fs, s, q[i].id)
                    b == ShardOfEx(fs, s, q[j].id)
                IN (a # NoShard /\ b # NoShard /\ a.id # b.id)
                   => (a.n = EPS \/ \E m \in 1..Len(att) : /\ att[m].pid = q[i].pid
                                                           /\ q[i].id < att[m].id /\ att[m].id <= q[j].id
                                                           /\ MdChanged(a.md, att[m].md))
C10_Size == Pristine /\ Quiescent => C10_SizeAt(files)

\* C11: an example written with metadata M lies in a shard recorded with M (value at the time of the write)
C11_LabelAt(fs) ==
    \A i \in 1..Len(wlog) :
       LET w == wlog[i] IN
       (w.acc /\ w.md # "None" /\ w.sess \in done)
       => LET e == ShardOfEx(fs, w.split, w.id) IN e # NoShard /\ e.md = w.md
C11_Label == Pristine /\ Quiescent => C11_LabelAt(files)

\* C18: rejected writes leave no trace, accepted writes are all readable
C18_AllOrNothingAt(fs) ==
    \A s \in Splits :
       /\ SeqSet(ReadSplit(fs, s)) \cap {wlog[i].id : i \in {j \in 1..Len(wlog) : ~wlog[j].acc}} = {}
       /\ 0 \notin SeqSet(ReadSplit(fs, s))
       /\ CommittedIds(s) \subseteq SeqSet(ReadSplit(fs, s))
       /\ (s \in DOMAIN InfoSplits(fs) => fs[InfoPath].splits[s].n = Cardinality(CommittedIds(s)))
C18_AllOrNothing == Pristine /\ Quiescent => C18_AllOrNothingAt(files)

\* C06: crash consistency, in EVERY state (every state is a crash point)
IsTmp(p) == Len(p[Len(p)]) >= 4 /\ SubSeq(p[Len(p)], 1, 4) = "tmp_"
IsMetaPath(p) == p = InfoPath \/ p[Len(p)] = "list"
C06_CrashSafeAt(fs) ==
    /\ \A p \in DOMAIN fs : IsMetaPath(p) => (fs[p] # TORN /\ (IsInfo(fs[p]) \/ IsList(fs[p])))
    /\ \A s \in DOMAIN InfoSplits(fs) :
          LET es == ShardEntries(fs, s) IN
          /\ \A i \in 1..Len(es) : /\ ShardOK(fs, es[i])
                                   /\ Digest(fs[es[i].id]) = es[i].sum
                                   /\ es[i].n = Len(fs[es[i].id].ex)
          /\ NoDupSeq(ReadSplit(fs, s))
    /\ \A s \in Splits : /\ CommittedIds(s) \subseteq SeqSet(ReadSplit(fs, s))
                         /\ SeqSet(ReadSplit(fs, s)) \subseteq AcceptedIds(s)
C06_CrashSafe == C06_CrashSafeAt(files)

\* C09: no file is written by two different processes; the parent writes only after every worker is done
PathsOf(q) == UNION {IF procs[q].todo[i].op = "mkdir" THEN {}
                         ELSE IF procs[q].todo[i].op = "rename" THEN {procs[q].todo[i].p, procs[q].todo[i].q}
                         ELSE {procs[q].todo[i].p} : i \in 1..Len(procs[q].todo)}
C09_NoSharedPath ==
    /\ \A q1, q2 \in P : q1 # q2 => PathsOf(q1) \cap PathsOf(q2) = {}
    /\ (ctl.mode = "multi") => procs[0].todo = <<>>
    /\ \A q1, q2 \in 1..MaxK : (q1 # q2 /\ procs[q1].active /\ procs[q2].active) => procs[q1].dir # procs[q2].dir

TypeOK == /\ nextEx \in Nat /\ nextShard \in Nat /\ nsess \in 0..MaxSessions
          /\ crashed \in BOOLEAN /\ failed \in BOOLEAN
          /\ \A p \in P : procs[p].nw \in 0..MaxWrites

(* ---- interleaved reader (C06, second clause) -------------------------------------------------- *)
\* A separate process opens the dataset at any instant: reads the description, then walks the lists of one
\* split reading one file per step, then reads each shard, while the writer's effects go on.
ReaderStart(s) ==
    /\ ReaderOn /\ rd.pc = "off" /\ ~Atomic /\ Has(files, InfoPath)
    /\ rd' = [pc |-> "lists", split |-> s, info |-> files[InfoPath],
              pend |-> IF files[InfoPath] # TORN /\ IsInfo(files[InfoPath]) /\ s \in DOMAIN files[InfoPath].splits
                       THEN <<<<s>>>> ELSE <<>>,
              shards |-> <<>>, view |-> <<>>, bad |-> (files[InfoPath] = TORN),
              base |-> CommittedIds(s)]
    /\ UNCHANGED <<files, dirs, mem, procs, ctl, nextEx, nextShard, nsess, wlog, done, callerMd, crashed, failed>>
ReaderList ==
    /\ rd.pc = "lists" /\ rd.pend # <<>>
    /\ LET lp == Head(rd.pend)
           okl == Intact(files, ListPath(lp)) /\ IsList(files[ListPath(lp)])
           L == files[ListPath(lp)]
       IN rd' = IF okl
                THEN [rd EXCEPT !.shards = @ \o L.shards,
                                !.pend = [i \in 1..Len(L.children) |-> L.children[i].dir] \o Tail(@)]
                ELSE [rd EXCEPT !.bad = TRUE, !.pend = Tail(@)]
    /\ UNCHANGED <<files, dirs, mem, procs, ctl, nextEx, nextShard, nsess, wlog, done, callerMd, crashed, failed>>
ReaderListsDone ==
    /\ rd.pc = "lists" /\ rd.pend = <<>>
    /\ rd' = [rd EXCEPT !.pc = "shards"]
    /\ UNCHANGED <<files, dirs, mem, procs, ctl, nextEx, nextShard, nsess, wlog, done, callerMd, crashed, failed>>
ReaderShard ==
    /\ rd.pc = "shards" /\ rd.shards # <<>>
    /\ LET e == Head(rd.shards)
           oks == Intact(files, e.id) /\ IsShard(files[e.id]) /\ Digest(files[e.id]) = e.sum
       IN rd' = IF oks THEN [rd EXCEPT !.view = @ \o files[e.id].ex, !.shards = Tail(@)]
                ELSE [rd EXCEPT !.bad = TRUE, !.shards = Tail(@)]
    /\ UNCHANGED <<files, dirs, mem, procs, ctl, nextEx, nextShard, nsess, wlog, done, callerMd, crashed, failed>>
ReaderEnd ==
    /\ rd.pc = "shards" /\ rd.shards = <<>>
    /\ rd' = [rd EXCEPT !.pc = "end"]
    /\ UNCHANGED <<files, dirs, mem, procs, ctl, nextEx, nextShard, nsess, wlog, done, callerMd, crashed, failed>>
Reader == (\E s \in Splits : ReaderStart(s)) \/ ReaderList \/ ReaderListsDone \/ ReaderShard \/ ReaderEnd
\* the reader never meets a missing / torn file, and what it returns lies between what was committed when it
\* started and what has been accepted so far
C06_Reader ==
    rd.pc # "off" =>
      /\ ~rd.bad
      /\ NoDupSeq(rd.view)
      /\ SeqSet(rd.view) \subseteq AcceptedIds(rd.split)
      /\ rd.pc = "end" => rd.base \subseteq SeqSet(rd.view)

(* ---------------------------------------------------------------------------------------- *)
Next ==
    \/ Create \/ Open \/ Relocate
    \/ \E d \in FillerDirs : BeginFiller(d)
    \/ \E p \in P, s \in Splits, md \in MDs, kd \in Kinds : Write(p, s, md, kd)
    \/ MutateCaller
    \/ \E p \in P : ExitFiller(p)
    \/ SessionDone
    \/ \E K \in 1..MaxK : MultiBegin(K)
    \/ MultiEnd \/ MultiDone \/ (\E j \in 1..MaxK : MultiAbort(j))
    \/ \E p \in P : FSStep(p)
    \/ Crash \/ Recover
    \/ Reader
Spec == Init /\ [][Next]_vars

\* state constraint helpers for the configurations
View == <<files, dirs, mem, procs, ctl, nextEx, nextShard, nsess, wlog, done, callerMd, crashed, failed, rd>>
===============================================================================
