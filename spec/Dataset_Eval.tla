----------------------------- MODULE Dataset_Eval -----------------------------
(* Evaluates the property predicates of Dataset.tla on states projected from the real implementation *)
(* (G2, level 1): the states come from a JSON file, one initial state per projected state; there is  *)
(* a single definition of every property - the TLA+ one.                                            *)
EXTENDS Dataset, Json, IOUtils, TLCExt

VARIABLE idx
evars == <<vars, idx>>

States == JsonDeserialize(IOEnv.STATES_FILE)
\* [files: Seq([p, c]), mem: table or [none], wlog: Seq(...), done: Seq(Nat), quiescent: BOOLEAN, checks: Seq(STRING)]

MkFiles(fl) == [p \in {fl[i].p : i \in 1..Len(fl)} |-> (LET i == CHOOSE j \in 1..Len(fl) : fl[j].p = p IN fl[i].c)]

EInit == /\ idx \in 1..Len(States)
         /\ files = MkFiles(States[idx].files)
         /\ dirs = {}
         /\ mem = States[idx].mem
         /\ procs = [p \in P |-> IdleProc]
         /\ ctl = [mode |-> "idle", k |-> 0, used |-> 0, loc |-> 0, cr |-> 0,
                   ab |-> IF "aborted" \in DOMAIN States[idx] THEN States[idx].aborted ELSE 0]
         /\ nextEx = 0 /\ nextShard = 0 /\ nsess = 0
         /\ wlog = States[idx].wlog
         /\ done = {States[idx].done[i] : i \in 1..Len(States[idx].done)}
         /\ callerMd = "A"
         /\ crashed = FALSE /\ failed = FALSE
         /\ rd = [pc |-> "off"]
ENext == FALSE /\ UNCHANGED evars
ESpec == EInit /\ [][ENext]_evars

\* what the real reader returned for every split of the description (R08/R03: the same properties judged on
\* the sequence actually yielded by the library instead of on the projected files)
RB == IF "readback" \in DOMAIN States[idx] THEN States[idx].readback ELSE <<>>
\* what the library yields when the shards of one split are selected by their recorded label (R11: C11's "selecting
\* shards by metadata returns all and only the examples written under that metadata"; a write without metadata joins
\* the shard that is open, whatever its label, so such examples may accompany any label)
RBSel == IF "rbsel" \in DOMAIN States[idx] THEN States[idx].rbsel ELSE <<>>
WrittenUnder(s, m) == {wlog[i].id : i \in {j \in 1..Len(wlog) : /\ wlog[j].acc /\ wlog[j].split = s
                                                                /\ wlog[j].sess \in done /\ wlog[j].md = m}}
Want(name) == \E i \in 1..Len(States[idx].checks) : States[idx].checks[i] = name
Verdict(name, holds) == (~Want(name)) \/ holds \/ PrintT(<<"PREDICATE-FALSE", name, idx>>)

\* every predicate is evaluated (no short-circuit between them): each prints its own verdict
EvalAll ==
    /\ Verdict("C04", Has(files, InfoPath) /\ mem # NoHandle /\ C04_ExactAt(files, mem))
    /\ Verdict("C05", mem # NoHandle /\ Check(mem, files))
    /\ Verdict("C08", C08_AppendOnlyAt(files))
    /\ Verdict("C03", C03_WriteOrderAt(files))
    /\ Verdict("C10", C10_SizeAt(files))
    /\ Verdict("C11", C11_LabelAt(files))
    /\ Verdict("C18", C18_AllOrNothingAt(files))
    /\ Verdict("C06", C06_CrashSafeAt(files))
    /\ Verdict("R08", \A s \in DOMAIN RB : NoDupSeq(RB[s]) /\ SeqSet(RB[s]) = CommittedIds(s))
    /\ Verdict("R03", \A s \in DOMAIN RB : \A k \in done : IsSubSeq(SessionSeq(s, k), RB[s]))
    /\ Verdict("R11", \A s \in DOMAIN RBSel : \A m \in DOMAIN RBSel[s] :
                          /\ NoDupSeq(RBSel[s][m])
                          /\ WrittenUnder(s, m) \subseteq SeqSet(RBSel[s][m])
                          /\ SeqSet(RBSel[s][m]) \subseteq (WrittenUnder(s, m) \cup WrittenUnder(s, "None")))
    /\ Verdict("R06", \A s \in Splits : LET r == IF s \in DOMAIN RB THEN RB[s] ELSE <<>> IN
                          /\ NoDupSeq(r) /\ SeqSet(r) \subseteq AcceptedIds(s) /\ CommittedIds(s) \subseteq SeqSet(r))
    /\ PrintT(<<"EVALUATED", idx>>)
===============================================================================
