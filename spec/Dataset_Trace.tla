---------------------------- MODULE Dataset_Trace ----------------------------
(* Trace validation for Dataset.tla at file-system-effect granularity: the API calls (markers) and the     *)
(* file-system effects recorded with strace from real writer processes must be a behaviour of Dataset.tla  *)
(* with Atomic = FALSE: every effect must be the next pending effect of the process that performed it      *)
(* (same kind, same directory, same class of file, same content up to shard-file names).                   *)
EXTENDS Dataset, Json, IOUtils, TLCExt

VARIABLES tid, l
tvars == <<vars, tid, l>>

TraceLogs == JsonDeserialize(IOEnv.TRACE_FILE)
Ev == TraceLogs[tid][l]
More == l <= Len(TraceLogs[tid])

TInit == Init /\ tid \in 1..Len(TraceLogs) /\ l = 1 /\ TLCSet(tid, 1)

(* ---- contents are compared up to the names of shard files --------------------------------------- *)
RECURSIVE Strip(_)
Strip(c) ==
    IF c = <<>> THEN <<>>
    ELSE IF "kind" \notin DOMAIN c THEN c
    ELSE IF c.kind = "list"
         THEN [kind |-> "list", n |-> c.n,
               shards |-> [i \in 1..Len(c.shards) |-> [n |-> c.shards[i].n, md |-> c.shards[i].md,
                                                       sum |-> c.shards[i].sum]],
               children |-> [i \in 1..Len(c.children) |-> [dir |-> c.children[i].dir, n |-> c.children[i].n,
                                                           nsh |-> c.children[i].nsh,
                                                           sum |-> Strip(c.children[i].sum)]]]
    ELSE IF c.kind = "info"
         THEN [kind |-> "info",
               splits |-> [s \in DOMAIN c.splits |-> [n |-> c.splits[s].n, nsh |-> c.splits[s].nsh,
                                                      sum |-> Strip(c.splits[s].sum)]]]
    ELSE c

LastC(p) == p[Len(p)]
IsTmpName(nm) == Len(nm) >= 4 /\ SubSeq(nm, 1, 4) = "tmp_"
Class(p) == IF p = InfoPath THEN "info"
            ELSE IF LastC(p) = "list" THEN "list"
            ELSE IF LastC(p) = "tmp_info" THEN "tmp_info"
            ELSE IF LastC(p) = "tmp_list" THEN "tmp_list"
            ELSE "shard"
DirOf(p) == SubSeq(p, 1, Len(p) - 1)

(* ---- API events (markers) ------------------------------------------------------------------------ *)
ProcOfDir(d) == CHOOSE p \in P : procs[p].active /\ procs[p].dir = d /\ (p = 0 <=> ctl.mode = "filler")
HasProcOfDir(d) == \E p \in P : procs[p].active /\ procs[p].dir = d /\ (p = 0 <=> ctl.mode = "filler")

TApi ==
    /\ Ev.k = "api"
    /\ \/ Ev.name = "Create" /\ Create
       \/ Ev.name = "Open" /\ (Open \/ (Quiescent /\ UNCHANGED vars))
       \/ Ev.name = "BeginFiller" /\ BeginFiller(Ev.dir)
       \/ Ev.name = "Write" /\ HasProcOfDir(Ev.dir) /\ Write(ProcOfDir(Ev.dir), Ev.split, Ev.md, Ev.kind)
       \/ Ev.name = "ExitFiller" /\ HasProcOfDir(Ev.dir) /\ ExitFiller(ProcOfDir(Ev.dir))
       \/ Ev.name = "SessionDone" /\ SessionDone
       \/ Ev.name = "MultiBegin" /\ MultiBegin(Ev.K)
       \/ Ev.name = "MultiEnd" /\ MultiEnd
       \/ Ev.name = "MultiDone" /\ MultiDone
       \/ Ev.name = "MultiAbort" /\ MultiAbort(Ev.K)

\* the outcome of the last write as observed by the caller
TAck == /\ Ev.k = "ack" /\ wlog # <<>>
        /\ \E i \in 1..Len(wlog) : wlog[i].id = Ev.id /\ wlog[i].acc = Ev.acc
        /\ UNCHANGED vars

(* ---- file-system effects ------------------------------------------------------------------------- *)
TFs ==
    /\ Ev.k = "fs"
    /\ \E p \in P :
         /\ IF Ev.w = <<>> THEN p = 0
            ELSE p # 0 /\ procs[p].dir = Ev.w /\ procs[p].state \in {"writing", "finished"}
         /\ procs[p].todo # <<>>
         /\ LET o == Head(procs[p].todo) IN
              /\ o.op = Ev.op
              /\ Class(o.p) = Ev.cls
              /\ DirOf(o.p) = Ev.dir
              /\ (Ev.op = "wfull") => (Strip(o.c) = Ev.c)
              /\ (Ev.op = "rename") => (Class(o.q) = Ev.qcls)
         /\ FSStep(p)

\* A TFRecord writer object that never received an example is not closed by the session; when it is
\* garbage-collected later it flushes an example-free file (unlisted, outside every property): a stuttering step.
TOrphan ==
    /\ Ev.k = "fs" /\ Streaming /\ Ev.cls = "shard" /\ Ev.op \in {"wpart", "wfull"}
    /\ (Ev.op = "wfull") => (Ev.c = EmptyShardFile \/ Ev.c = TORN)
    /\ UNCHANGED vars

TNext == /\ More
         /\ (TApi \/ TAck \/ TFs \/ TOrphan)
         /\ l' = l + 1 /\ UNCHANGED tid
TSpec == TInit /\ [][TNext]_tvars

Reach == TLCSet(tid, IF TLCGet(tid) < l THEN l ELSE TLCGet(tid))
Report == \A t \in 1..Len(TraceLogs) : PrintT(<<"REACHED", t, TLCGet(t), Len(TraceLogs[t]) + 1>>)
===============================================================================
