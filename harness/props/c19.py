"""C19 - repeating iteration cycles through the whole split forever.

Models: EpochLoop.tla (itertools.cycle / the per-epoch loop of the Rust generator: NeverEnds, Periodic,
EpochsArePermutations, OneLiveIterator), ShuffleBuffer.tla over a cyclic source (only source elements, never
stalls, bounded read-ahead). Binding: stream prefixes of three epochs (+1) taken from every interface with
repeat=True for shuffle in {0,1,n,>n} and file_parallelism in {1,2,>shards} on real multi-split datasets; TLC
(Reads_Eval) judges: every id belongs to the split; shuffle=0: element i = one-pass element i mod n; Rust: every
block of n is a permutation of the split; the prefix is delivered (watchdog)."""
from . import _readfamily as R
from .. import tlc
from ..core import MachineryError

LEVEL = "model_checking"
INV = ["NeverEnds", "Periodic", "EpochsArePermutations", "OneLiveIterator"]


def run(ctx):
    ctx.assumptions += ["for shuffled Python paths only membership is demanded (the shuffle buffer over a cyclic "
                        "source legitimately mixes epochs)", "stream prefixes of three epochs are observed"]
    for S in (1, 2, 3, 4):
        for shuffled in (False, True):
            for rust in (False, True):
                d = ctx.tmp / f"ep_{S}{int(shuffled)}{int(rust)}"
                me = 2 if (S == 4 and shuffled and rust) else 3
                mod, cfg = tlc.make_model(d, "EpochLoop", {"S": S, "Shuffled": shuffled, "Rust": rust, "MaxEpochs": me,
                                                           "NoCycle": False}, spec="Spec", invariants=INV)
                res = tlc.run(mod, cfg, workers=4, workdir=d, coverage=False, timeout=300)
                ctx.add_tlc(f"EpochLoop:S{S}sh{int(shuffled)}rust{int(rust)}", res)
                if not res.ok:
                    raise MachineryError(f"EpochLoop.tla violates {res.violated}")
    d = ctx.tmp / "ep_sanity"
    mod, cfg = tlc.make_model(d, "EpochLoop", {"S": 2, "Shuffled": False, "Rust": False, "MaxEpochs": 3,
                                               "NoCycle": True}, spec="Spec", invariants=INV)
    res = tlc.run(mod, cfg, workers=1, workdir=d, coverage=False)
    if "NeverEnds" not in res.violated:
        raise MachineryError("model sanity: a stream without the cycle was not refuted")
    ctx.cov["model_sanity"] = ["EpochLoop: dropping itertools.cycle violates NeverEnds"]
    for N, B in ((1, 1), (2, 2), (3, 3), (3, 2), (2, 3)):
        R._mc(ctx, "ShuffleBuffer", f"cyclic_N{N}B{B}", {"N": N, "B": B, "Cyclic": True, "MaxOut": 2 * N + 2},
              ["ReadAhead", "Productive", "OnlySourceElements"], cons=["Bounded"], deadlock=False)
    ctx.log(f"TLC: EpochLoop (16 configurations) and cyclic ShuffleBuffer: {ctx.cov['states']} distinct states")
    configs = []
    for iface in ("numpy", "concurrent", "async", "rust", "tfdata"):
        for shuffle in (0, 1, "n", "big"):
            for fp in (1, 2, "many"):
                if iface == "numpy" and fp != 1:
                    continue
                if ctx.quick and iface == "tfdata" and fp == 2:
                    continue
                configs.append({"iface": iface, "shuffle": shuffle, "fp": fp, "repeat": True})
    obs = R.run_grid(ctx, "C19", "repeat", configs, lockstep=["numpy", "concurrent", "async", "rust", "tfdata"])
    ctx.cov["traces_validated_against_impl"] = len(obs)


def replay(ctx, body):
    o = body["witness"].get("observation")
    if o is None:
        raise MachineryError("replay: re-run ./check C19")
    R.judge_obs(ctx, [o], "C19")
