"""C16 - recorded checksums are the standard digests of the exact file bytes.

Model: HashStream.tla - the read loop over a file of L bytes with capacity Cap, every pattern of short reads;
invariants PrefixFed (each hash object has received exactly the bytes read so far, once, in order) and
ResultExact (position i of the result is algorithm i's digest of the complete content). Binding: (spec -> code)
every TLC behaviour (pattern of read sizes) is imposed on the real hash_checksums through a raw-file shim and the
chunks each hash object receives are compared with the model's; (code -> spec) real files around the multiples
of the real buffer size are hashed with recording hash objects and the chunk sequences judged by TLC; end to end,
every recorded checksum equals the digest computed by independent tools (coreutils / openssl / pure-Python xxHash)."""
from __future__ import annotations

import hashlib
import io
import json
import os
import random
import struct
import subprocess
import tempfile
from pathlib import Path

from .. import tlc
from ..core import Ctx, MachineryError

LEVEL = "model_checking"
ALGOS = ["md5", "sha1", "sha224", "sha256", "sha384", "sha512", "sha3_224", "sha3_256", "sha3_384", "sha3_512",
         "xxh32", "xxh64", "xxh128"]

# ------------------------------------------------------------------------------------------------
# independent digests

_P32 = (2654435761, 2246822519, 3266489917, 668265263, 374761393)
_P64 = (11400714785074694791, 14029467366897019727, 1609587929392839161, 9650029242287828579, 2870177450012600261)
M32, M64 = 0xFFFFFFFF, 0xFFFFFFFFFFFFFFFF


def _rotl(x, r, bits):
    m = (1 << bits) - 1
    return ((x << r) | (x >> (bits - r))) & m


def xxh32_py(data: bytes, seed: int = 0) -> str:
    """XXH32 written from the published algorithm description."""
    p1, p2, p3, p4, p5 = _P32
    n = len(data)
    i = 0
    if n >= 16:
        v = [(seed + p1 + p2) & M32, (seed + p2) & M32, seed & M32, (seed - p1) & M32]
        while i <= n - 16:
            for k in range(4):
                (x,) = struct.unpack_from("<I", data, i)
                v[k] = (_rotl((v[k] + x * p2) & M32, 13, 32) * p1) & M32
                i += 4
        h = (_rotl(v[0], 1, 32) + _rotl(v[1], 7, 32) + _rotl(v[2], 12, 32) + _rotl(v[3], 18, 32)) & M32
    else:
        h = (seed + p5) & M32
    h = (h + n) & M32
    while i <= n - 4:
        (x,) = struct.unpack_from("<I", data, i)
        h = (_rotl((h + x * p3) & M32, 17, 32) * p4) & M32
        i += 4
    while i < n:
        h = (_rotl((h + data[i] * p5) & M32, 11, 32) * p1) & M32
        i += 1
    h ^= h >> 15
    h = (h * p2) & M32
    h ^= h >> 13
    h = (h * p3) & M32
    h ^= h >> 16
    return f"{h:08x}"


def xxh64_py(data: bytes, seed: int = 0) -> str:
    p1, p2, p3, p4, p5 = _P64
    n = len(data)
    i = 0

    def rnd(acc, x):
        return (_rotl((acc + x * p2) & M64, 31, 64) * p1) & M64

    def merge(h, v):
        h ^= rnd(0, v)
        return (h * p1 + p4) & M64

    if n >= 32:
        v = [(seed + p1 + p2) & M64, (seed + p2) & M64, seed & M64, (seed - p1) & M64]
        while i <= n - 32:
            for k in range(4):
                (x,) = struct.unpack_from("<Q", data, i)
                v[k] = rnd(v[k], x)
                i += 8
        h = (_rotl(v[0], 1, 64) + _rotl(v[1], 7, 64) + _rotl(v[2], 12, 64) + _rotl(v[3], 18, 64)) & M64
        for k in range(4):
            h = merge(h, v[k])
    else:
        h = (seed + p5) & M64
    h = (h + n) & M64
    while i <= n - 8:
        (x,) = struct.unpack_from("<Q", data, i)
        h ^= rnd(0, x)
        h = (_rotl(h, 27, 64) * p1 + p4) & M64
        i += 8
    if i <= n - 4:
        (x,) = struct.unpack_from("<I", data, i)
        h ^= (x * p1) & M64
        h = (_rotl(h, 23, 64) * p2 + p3) & M64
        i += 4
    while i < n:
        h ^= (data[i] * p5) & M64
        h = (_rotl(h, 11, 64) * p1) & M64
        i += 1
    h ^= h >> 33
    h = (h * p2) & M64
    h ^= h >> 29
    h = (h * p3) & M64
    h ^= h >> 32
    return f"{h:016x}"


_TOOLS = {"md5": ["md5sum"], "sha1": ["sha1sum"], "sha224": ["sha224sum"], "sha256": ["sha256sum"],
          "sha384": ["sha384sum"], "sha512": ["sha512sum"],
          "sha3_224": ["openssl", "dgst", "-sha3-224"], "sha3_256": ["openssl", "dgst", "-sha3-256"],
          "sha3_384": ["openssl", "dgst", "-sha3-384"], "sha3_512": ["openssl", "dgst", "-sha3-512"]}


def independent_digest(alg: str, path: Path) -> str:
    if alg in _TOOLS:
        out = subprocess.run(_TOOLS[alg] + [str(path)], capture_output=True, text=True, check=True).stdout.strip()
        if _TOOLS[alg][0] == "openssl":
            return out.split("= ")[-1].strip()
        return out.split()[0]
    data = path.read_bytes()
    if alg == "xxh32":
        return xxh32_py(data)
    if alg == "xxh64":
        return xxh64_py(data)
    if alg == "xxh128":
        import xxhash
        return xxhash.xxh128_hexdigest(data)  # one-shot call: the trusted reference for xxh128
    raise ValueError(alg)


# ------------------------------------------------------------------------------------------------
# shims


class _RawShim(io.RawIOBase):
    """Raw file whose readinto follows a prescribed pattern of chunk sizes (then reads the rest one at a time)."""

    def __init__(self, data: bytes, pattern):
        super().__init__()
        self.data, self.pos, self.pattern, self.calls = data, 0, list(pattern), []
        self.buflens = []

    def readable(self):
        return True

    def readinto(self, b):
        self.buflens.append(len(b))
        left = len(self.data) - self.pos
        if left == 0:
            self.calls.append(0)
            return 0
        n = self.pattern.pop(0) if self.pattern else 1
        n = max(1, min(n, left, len(b)))
        b[:n] = self.data[self.pos:self.pos + n]
        self.pos += n
        self.calls.append(n)
        return n


class _RecHash:

    def __init__(self, name, log):
        self.h = hashlib.new(name) if not name.startswith("xxh") else __import__("xxhash").__dict__[name]()
        self.chunks = []
        log.append(self)

    def update(self, b):
        self.chunks.append(bytes(b))
        self.h.update(b)

    def hexdigest(self):
        return self.h.hexdigest()

    def digest(self):
        return self.h.digest()


def run_real(data: bytes, algs, pattern=None, path: Path | None = None):
    """Runs the real hash_checksums with recording hash objects; with `pattern` the reads follow it."""
    import sedpack.io.utils as U
    log = []
    saved_get = U._get_hash_function  # pylint: disable=protected-access
    U._get_hash_function = lambda name: _RecHash(name, log)  # pylint: disable=protected-access
    shim = None
    had_open = "open" in U.__dict__
    try:
        if pattern is not None:
            shim = _RawShim(data, pattern)

            def fake_open(file, mode="r", buffering=-1, *a, **k):  # pylint: disable=unused-argument
                assert "b" in mode and buffering == 0
                return shim

            U.open = fake_open
            res = U.hash_checksums(Path("/nonexistent/shimmed"), tuple(algs))
        else:
            res = U.hash_checksums(path, tuple(algs))
    finally:
        U._get_hash_function = saved_get  # pylint: disable=protected-access
        if pattern is not None and not had_open:
            del U.open
    return res, log, shim


def run(ctx: Ctx) -> None:
    q = ctx.quick
    ctx.assumptions += ["which digest function an algorithm name denotes is checked against external tools "
                        "(md5sum, sha*sum, openssl dgst) and a pure-Python xxHash32/64; xxhash's one-shot xxh128 is "
                        "trusted", "the read buffer size itself is not constrained (measured from the code)"]
    # ---------------------------------------------------------------- 1. model
    d = ctx.tmp / "mc"
    behaviours = {}
    cap = 3
    for L in range(0, 2 * cap + 2):
        mod, cfg = tlc.make_model(d / f"L{L}", "HashStream", {"L": L, "Cap": cap, "Algs": ("md5", "sha1", "md5"),
                                                              "Variant": "good"},
                                  spec="Spec", invariants=["PrefixFed", "ResultExact"])
        dot = d / f"L{L}" / "g.dot"
        res = tlc.run(mod, cfg, workers=1, workdir=d / f"L{L}", coverage=False, dump=dot)
        ctx.add_tlc(f"L{L}_cap{cap}", res)
        if not res.ok:
            raise MachineryError(f"HashStream.tla violates {res.violated} for L={L}")
        g = tlc.load_graph(dot)
        # every behaviour = every path init -> done; enumerate read patterns from the graph
        out = {}
        for s, t, lab in g.edges:
            out.setdefault(s, []).append((t, lab))
        pats = []

        def walk(n, acc):
            nxt = [(t, lab) for t, lab in out.get(n, []) if t != n]
            if not nxt:
                pats.append(acc)
                return
            for t, lab in nxt:
                nm, args = tlc.label_name(lab)
                walk(t, acc + ([int(args)] if nm == "Read" else []))

        walk(g.init[0], [])
        behaviours[L] = pats
    notes = []
    for variant in ("whole_buffer", "skip_short"):
        mod, cfg = tlc.make_model(d / variant, "HashStream", {"L": 4, "Cap": cap, "Algs": ("md5",),
                                                              "Variant": variant},
                                  spec="Spec", invariants=["PrefixFed", "ResultExact"])
        res = tlc.run(mod, cfg, workers=1, workdir=d / variant, coverage=False)
        if res.ok:
            raise MachineryError(f"model sanity: variant {variant} not refuted")
        notes.append(f"{variant}: {res.violated}")
    ctx.cov["model_sanity"] = notes
    npat = sum(len(v) for v in behaviours.values())
    ctx.log(f"TLC: file lengths 0..{2 * cap + 1}, capacity {cap}: {npat} read patterns (all behaviours), invariants "
            f"hold")

    # ---------------------------------------------------------------- 2. spec -> code: impose every pattern
    rng = random.Random(ctx.seed + 16)
    n_replayed = 0
    for L, pats in behaviours.items():
        data = bytes(rng.randrange(256) for _ in range(L))
        for pat in pats:
            algs = rng.choice((["sha256"], ["md5", "xxh64", "md5"], list(ALGOS), list(reversed(ALGOS))))
            res, log, shim = run_real(data, algs, pattern=pat)
            n_replayed += 1
            want_chunks = []
            p = 0
            for n in pat:
                want_chunks.append(data[p:p + n])
                p += n
            ok = (len(log) == len(algs) and all(h.chunks == want_chunks for h in log) and shim.calls == pat + [0])
            if not ok:
                # protocol-level difference; the property-level judgement is the digest equality below
                ctx.add_drift(f"read pattern {pat} for L={L}: hash objects received "
                              f"{[[len(c) for c in h.chunks] for h in log][:2]}, readinto calls {shim.calls}")
            exp = tuple(_digest_of(a, data) for a in algs)
            if tuple(res) != exp:
                ctx.violation(f"C16|kind=wrong-digest|short-reads={'yes' if any(n < cap for n in pat) else 'no'}",
                              f"hash_checksums over a {L}-byte file read in chunks {pat} returned {res[:2]}..., "
                              f"the digests of the content are {exp[:2]}...",
                              {"mode": "pattern", "len": L, "pattern": pat, "algs": algs, "data": data.hex()})
    ctx.cov["read_patterns_replayed"] = n_replayed
    ctx.sample({"kind": "read pattern imposed on the real loop", "L": 2 * cap + 1,
                "pattern": behaviours[2 * cap + 1][len(behaviours[2 * cap + 1]) // 2]})

    # ---------------------------------------------------------------- 3. code -> spec: real files, real buffer
    res, log, shim = run_real(b"x" * 10, ["md5"], pattern=[10])
    realcap = shim.buflens[0]
    ctx.cov["read_buffer_bytes_measured"] = realcap
    sizes = [0, 1, realcap - 1, realcap, realcap + 1, 2 * realcap - 1, 2 * realcap, 2 * realcap + 1, (1 << 20) + 3]
    if not q:
        sizes += [3 * realcap, 5 * realcap + 17, (1 << 22) + 1]
        # every tiny size, and one below / at / above every further multiple of the buffer up to 8 buffers
        sizes += list(range(2, 48)) + [k * realcap + d for k in range(3, 9) for d in (-1, 0, 1)] + [(1 << 24) + 5]
        sizes = sorted(set(sizes))
    obs = []
    tuples = [[a] for a in ALGOS] + [list(ALGOS), list(reversed(ALGOS)), ["sha256", "sha256"],
                                     ["xxh64", "md5", "xxh64", "md5"]]
    if not q:
        # every ordered pair (repetition included) and seeded tuples of 3..13 algorithms with repetition
        trng = random.Random(ctx.seed * 131 + 16)
        tuples += [[a, b] for a in ALGOS for b in ALGOS]
        tuples += [[trng.choice(ALGOS) for _ in range(trng.randint(3, 13))] for _ in range(150)]
    n_files = 0
    with tempfile.TemporaryDirectory(prefix="verif_c16_") as td:
        for si, size in enumerate(sizes):
            data = random.Random(ctx.seed * 77 + size).randbytes(size)
            p = Path(td) / f"f{size}.bin"
            p.write_bytes(data)
            if q:
                use = tuples if si < 4 else [tuples[si % len(tuples)], list(ALGOS)]
            else:
                # all tuples on the sizes around the first buffer boundaries, a rotating sample of 12 on the others
                use = tuples if size in (0, 1, realcap - 1, realcap, realcap + 1, 2 * realcap + 1) else \
                    [tuples[(si * 12 + j) % len(tuples)] for j in range(12)] + [list(ALGOS)]
            ext = {}
            for algs in use:
                n_files += 1
                res, log, _ = run_real(data, algs, path=p)
                reads = [len(c) for c in log[0].chunks] if log else []
                obs.append({"len": size, "cap": realcap, "reads": reads, "nalgs": len(algs),
                            "updates": [[len(c) for c in h.chunks] for h in log]})
                if any(b"".join(h.chunks) != data for h in log):
                    ctx.violation("C16|kind=wrong-bytes-fed", f"a hash object did not receive the file content for a "
                                  f"{size}-byte file", {"mode": "file", "size": size, "algs": algs})
                for a in set(algs):
                    if a not in ext:
                        ext[a] = independent_digest(a, p)
                exp = tuple(ext[a] for a in algs)
                if tuple(res) != exp or any(x != x.lower() for x in res):
                    bad = [a for a, r, e in zip(algs, res, exp) if r != e]
                    ctx.violation(f"C16|kind=wrong-digest|alg={bad[0] if bad else 'case'}",
                                  f"hash_checksums({size}-byte file, {algs}) = {res}, independent tools say {exp}",
                                  {"mode": "file", "size": size, "algs": algs})
            p.unlink()
    of = ctx.tmp / "obs.json"
    of.write_text(json.dumps(obs))
    ecfg = tlc.make_cfg(ctx.tmp / "ev.cfg", spec="ESpec",
                        constants={"L": 0, "Cap": 1, "Algs": "<- EvalAlgs", "Variant": "good"}, invariants=["Judge"])
    (ctx.tmp / "HashStream_EvalMC.tla").write_text(
        "---- MODULE HashStream_EvalMC ----\nEXTENDS HashStream_Eval\nEvalAlgs == <<\"md5\">>\n====\n")
    r = tlc.run("HashStream_EvalMC", ecfg, workers=1, workdir=ctx.tmp, coverage=False, cont=True,
                env={"OBS_FILE": str(of)})
    if r.distinct != len(obs):
        raise MachineryError(f"HashStream_Eval judged {r.distinct} of {len(obs)}\n{r.out[-2000:]}")
    n_bad = 0
    for p in r.prints:
        if isinstance(p, tuple) and p and p[0] == "NOT-A-BEHAVIOUR":
            n_bad += 1
            ctx.add_drift(f"recorded chunk sequence is not a behaviour of HashStream: {obs[p[1] - 1]}")
    ctx.cov["real_file_runs_judged_by_tlc"] = len(obs)
    ctx.cov["traces_validated_against_impl"] = n_replayed + len(obs) - n_bad

    # ---------------------------------------------------------------- 3b. the same function called from several threads
    # at once (fillers in threads, check() next to a writer, ...): every call must still digest its own file
    import threading
    import sedpack.io.utils as U
    n_thr = 0
    with tempfile.TemporaryDirectory(prefix="verif_c16t_") as td:
        files = []
        for k in range(6):
            size = (k % 3 + 2) * realcap + 17 * k + 1
            data = random.Random(ctx.seed * 91 + k).randbytes(size)
            pth = Path(td) / f"t{k}.bin"
            pth.write_bytes(data)
            algs = [["sha256"], ["md5", "xxh64"], ["sha1", "sha256", "md5"]][k % 3]
            files.append((pth, algs, tuple(_digest_of(a, data) for a in algs)))
        wrong, errs = [], []
        barrier = threading.Barrier(len(files))

        def worker(pth, algs, want):
            try:
                for _ in range(8 if q else 40):
                    barrier.wait(timeout=120)
                    got = tuple(U.hash_checksums(pth, tuple(algs)))
                    if got != want:
                        wrong.append((pth.name, algs, got, want))
            except Exception as exc:  # pylint: disable=broad-except
                errs.append(repr(exc))
                barrier.abort()

        ths = [threading.Thread(target=worker, args=f, daemon=True) for f in files]
        for t in ths:
            t.start()
        for t in ths:
            t.join(600)
        n_thr = len(files) * (8 if q else 40)
        if errs and not wrong:
            raise MachineryError(f"threaded hashing scenario failed: {errs[:2]}")
        if wrong:
            name, algs, got, want = wrong[0]
            ctx.violation("C16|kind=wrong-digest|concurrent=yes",
                          f"hash_checksums called from {len(files)} threads at once returned {got[:2]} for {name} "
                          f"({algs}); the digests of that file are {want[:2]} ({len(wrong)} wrong results)",
                          {"mode": "threads", "n_wrong": len(wrong), "algs": algs})
    ctx.cov["concurrent_hash_calls"] = n_thr

    # ---------------------------------------------------------------- 4. end to end: checksums in real metadata
    n_meta = _metadata_checksums(ctx, q)
    ctx.cov["metadata_checksums_verified_with_external_tools"] = n_meta
    ctx.log(f"{n_replayed} TLC read patterns imposed on the real loop; {len(obs)} real-file runs (sizes around "
            f"multiples of the {realcap}-byte buffer) judged by TLC; {n_meta} checksums recorded in real metadata "
            f"verified with external tools")


def _digest_of(alg: str, data: bytes) -> str:
    if alg == "xxh32":
        return xxh32_py(data)
    if alg == "xxh64":
        return xxh64_py(data)
    if alg == "xxh128":
        import xxhash
        return xxhash.xxh128_hexdigest(data)
    return hashlib.new(alg, data).hexdigest()


def _metadata_checksums(ctx: Ctx, q: bool) -> int:
    from sedpack.io import Dataset, Metadata
    from .. import dsreal
    n = 0
    combos = [("fb", "", ["sha256"]), ("npz", "", list(ALGOS)), ("tfrec", "GZIP", list(reversed(ALGOS))),
              ("fb", "LZ4", ["md5", "xxh32", "md5"])]
    if not q:
        combos += [("fb", "ZSTD", [a]) for a in ALGOS]
    with tempfile.TemporaryDirectory(prefix="verif_c16m_") as td:
        for ci, (fmt, comp, algs) in enumerate(combos):
            root = Path(td) / f"d{ci}"
            ds = Dataset.create(root, Metadata(description="c16"), dsreal.structure(fmt, comp, 2, algs))
            with ds.filler() as f:
                for i in range(1, 6):
                    f.write_example(values=dsreal.example(i), split="train" if i % 2 else "test")
            from sedpack.io.dataset_filler import DatasetFiller
            with DatasetFiller(ds, relative_path_from_split=Path("s")) as f:
                f.write_example(values=dsreal.example(9), split="train")
            with DatasetFiller(ds, relative_path_from_split=Path("t")) as f:
                f.write_example(values=dsreal.example(10), split="train")
            # continued writing into "s" whose result never reaches write_config (auto_update_dataset=False, result
            # dropped), then an ordinary session into the sibling "t": the merge must re-hash what it records
            dropped = DatasetFiller(ds, relative_path_from_split=Path("s"), auto_update_dataset=False)
            with dropped as f:
                f.write_example(values=dsreal.example(11), split="train")
            with DatasetFiller(ds, relative_path_from_split=Path("t")) as f:
                f.write_example(values=dsreal.example(12), split="train")
            returned = ds.write_config(updated_infos=[]).hash_checksums
            current = ds.current_metadata_checksums()
            cache = {}

            def want(rel):
                if rel not in cache:
                    cache[rel] = tuple(independent_digest(a, root / rel) for a in algs)
                return cache[rel]

            def verify(rel, got, where):
                nonlocal n
                n += len(algs)
                if tuple(got) != want(rel):
                    ctx.violation(f"C16|kind=metadata-checksum|where={where}",
                                  f"{fmt}/{comp} algorithms {algs}: checksum of {rel} recorded in {where} is {got}, "
                                  f"external tools say {want(rel)}", {"mode": "metadata", "combo": [fmt, comp, algs]})

            verify("dataset_info.json", returned, "write_config return value")
            verify("dataset_info.json", current, "current_metadata_checksums")
            info = json.loads((root / "dataset_info.json").read_text())

            def walk(rel, got, where):
                verify(rel, got, where)
                j = json.loads((root / rel).read_text())
                for sh in j.get("shard_files", []):
                    fi = sh["file_infos"][0]
                    verify(fi["file_path"], fi.get("hash_checksums", ()), rel)
                for ch in j.get("children_shard_lists", []):
                    fi = ch["shard_list_info_file"]
                    walk(fi["file_path"], fi.get("hash_checksums", ()), rel)

            for e in info["splits"].values():
                fi = e["shard_list_info_file"]
                walk(fi["file_path"], fi.get("hash_checksums", ()), "dataset_info.json")
    return n


def replay(ctx: Ctx, body: dict) -> None:
    w = body["witness"]
    ctx.cov.update({"states": 1, "transitions": 1, "traces_validated_against_impl": 1})
    if w["mode"] == "pattern":
        data = bytes.fromhex(w["data"])
        res, _log, _shim = run_real(data, w["algs"], pattern=w["pattern"])
        exp = tuple(_digest_of(a, data) for a in w["algs"])
        if tuple(res) != exp:
            ctx.violation("C16|kind=wrong-digest", f"{res} != {exp}", w)
    else:
        run(ctx)
