"""Uniform adapters over the five iteration interfaces of sedpack (ids of the yielded examples)."""
from __future__ import annotations

import asyncio
import itertools

import numpy as np

INTERFACES = ("numpy", "concurrent", "async", "rust", "tfdata")
RUST_COMPRESSIONS = ("", "LZ4", "GZIP", "ZLIB")


def supports(iface: str, fmt: str, compression: str = "", option: str | None = None) -> bool:
    if iface == "async" and fmt not in ("fb", "npz"):
        return False
    if iface == "rust" and (fmt != "fb" or compression not in RUST_COMPRESSIONS):
        return False
    if option == "custom_metadata_type_limit" and iface in ("async", "rust"):
        return False
    return True


def ex_id(ex) -> int:
    v = ex["id"]
    if hasattr(v, "numpy"):
        v = v.numpy()
    return int(np.asarray(v).reshape(-1)[0])


def iterate(ds, iface: str, split: str, *, repeat: bool = False, shuffle: int = 0, file_parallelism: int = 1,
            process_record=None, **sel):
    """Returns an iterator over yielded examples (after process_record)."""
    sel = {k: v for k, v in sel.items() if v is not None}
    if iface == "numpy":
        return iter(ds.as_numpy_iterator(split=split, repeat=repeat, shuffle=shuffle, process_record=process_record,
                                         **sel))
    if iface == "concurrent":
        return iter(ds.as_numpy_iterator_concurrent(split=split, repeat=repeat, shuffle=shuffle,
                                                    file_parallelism=file_parallelism,
                                                    process_record=process_record, **sel))
    if iface == "rust":
        return iter(ds.as_numpy_iterator_rust(split=split, repeat=repeat, shuffle=shuffle,
                                              file_parallelism=file_parallelism, process_record=process_record, **sel))
    if iface == "tfdata":
        tfds = ds.as_tfdataset(split, repeat=repeat, shuffle=shuffle, batch_size=0, file_parallelism=file_parallelism,
                               parallelism=1, process_record=process_record, **sel)
        return iter(tfds.as_numpy_iterator())
    if iface == "async":
        agen = ds.as_numpy_iterator_async(split=split, repeat=repeat, shuffle=shuffle,
                                          file_parallelism=file_parallelism, process_record=process_record, **sel)
        return _AsyncBridge(agen)
    raise ValueError(iface)


class _AsyncBridge:
    """Synchronous iterator over an async generator (own event loop)."""

    def __init__(self, agen):
        self.agen = agen
        self.loop = asyncio.new_event_loop()

    def __iter__(self):
        return self

    def __next__(self):
        try:
            return self.loop.run_until_complete(self.agen.__anext__())
        except StopAsyncIteration:
            self.close()
            raise StopIteration from None

    def idle(self, seconds: float):
        """The consumer awaits something else for a while: the event loop keeps running (background tasks of the
        iterator get their turns) but nothing is requested from the iterator."""
        if not self.loop.is_closed():
            self.loop.run_until_complete(asyncio.sleep(seconds))

    def close(self):
        if not self.loop.is_closed():
            try:
                self.loop.run_until_complete(self.agen.aclose())
            except Exception:  # pylint: disable=broad-except
                pass
            self.loop.close()


def read_ids(ds, iface: str, split: str, *, take: int | None = None, stall=None, **kw) -> list[int]:
    """stall = (k, seconds): the consumer is busy for `seconds` after its k-th example (a training step, a
    checkpoint) while every read-ahead thread sits idle - nothing may be lost because of that."""
    it = iterate(ds, iface, split, **kw)
    try:
        if take is not None:
            it2 = itertools.islice(it, take)
        else:
            it2 = it
        import time
        got = []
        for e in it2:
            got.append(ex_id(e))
            # the example now belongs to the consumer, which is free to take it apart (pop the label, ...): what it
            # does to ITS example must never show up in what the stream yields later
            if isinstance(e, dict):
                e.clear()
            if stall is not None and len(got) == stall[0]:
                if isinstance(it, _AsyncBridge):
                    it.idle(stall[1])       # an async consumer that is busy still lets its event loop run
                else:
                    time.sleep(stall[1])
        return got
    finally:
        close = getattr(it, "close", None)
        if close is not None:
            try:
                close()
            except Exception:  # pylint: disable=broad-except
                pass
