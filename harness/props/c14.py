"""C14 - iteration is lazy: read-ahead is bounded by the configured buffers.

Models: the read-ahead invariants of every buffering stage - ShuffleBuffer.tla ReadAhead (pulled - yielded <= B+1),
RoundRobin.tla OpenBounded (<= B inner iterators open), LazyPool.tla InFlightBound / SourceReadAhead (<= prefill+1),
BatchMap.tla ReadAhead (<= P shards decoded ahead), ParallelMap.tla OneOutstanding / ReadAhead (<= T) - are state
invariants that do not mention the source length; TLC checks them for sources of different lengths and for the
cyclic (infinite) source, where Productive says a finite take never blocks; and the TLA+ proof system checks
inductive-invariant proofs (spec/proofs/*_Proofs.tla) that the five read-ahead invariants hold for EVERY source length,
buffer size, thread count, failure set and drop position. Binding: pull/yield counts of the real
generators and of the real pool are measured for sources of N, 2N, 4N elements (same maximum, below the model's
bound); end to end, the shard files opened (inotify: any thread, TensorFlow, Rust) while taking k examples from
datasets of S, 2S, 4S shards - finite and repeating - stay below a bound that depends only on the configured
shuffle / parallelism, and take(k) returns under a watchdog."""
from __future__ import annotations

import math
import random
import shutil
import tempfile
import time
import traceback
from pathlib import Path

from .. import dshist as H, lazydrive as LD, pipes, tlc
from ..core import Ctx, MachineryError
from . import _readfamily as R, c15

LEVEL = "model_checking"


def lazy_measure(task: dict) -> dict:
    out = {"error": None, "rows": [], "problems": []}
    tmp = Path(tempfile.mkdtemp(prefix="verif_c14_"))
    try:
        from .. import rustext
        if rustext.SO.exists():
            rustext.preload()
        import itertools
        from sedpack.io import Dataset, Metadata
        from .. import dsreal, readers
        from ..inotify import OpenWatcher
        from ._readfamily import _timed
        fmt, comp, eps = task["fmt"], task["compression"], 2
        roots = {}
        for S in task["sizes"]:
            ds = Dataset.create(tmp / f"d{S}", Metadata(description="c14"), dsreal.structure(fmt, comp, eps, ()))
            with ds.filler() as f:
                for i in range(1, S * eps + 1):
                    f.write_example(values=dsreal.example(i), split="train")
            roots[S] = tmp / f"d{S}"
        for cfg in task["configs"]:
            iface = cfg["iface"]
            if not readers.supports(iface, fmt, comp):
                continue
            row = dict(cfg, fmt=fmt, opened={})
            for S in task["sizes"]:
                best = 0
                for rep in range(task["reps"]):
                    ds = Dataset(roots[S])
                    w = OpenWatcher(str(roots[S] / "train"))

                    def go():
                        it = readers.iterate(ds, iface, "train", repeat=cfg["repeat"], shuffle=cfg["shuffle"],
                                             file_parallelism=cfg["fp"])
                        got = []
                        for e in itertools.islice(it, cfg["take"]):
                            got.append(readers.ex_id(e))
                            if cfg.get("pace"):
                                (it.idle if hasattr(it, "idle") else time.sleep)(cfg["pace"])
                        # let read-ahead threads (and, for the async interface, the event loop's tasks) run as far as
                        # they ever would
                        (it.idle if hasattr(it, "idle") else time.sleep)(0.15)
                        opened = {n for n in w.poll() if n.endswith(dsreal.EXT)}
                        close = getattr(it, "close", None)
                        if close:
                            try:
                                close()
                            except Exception:  # pylint: disable=broad-except
                                pass
                        del it
                        import gc
                        gc.collect()
                        time.sleep(0.15)  # abandoning the iterator must not read the rest of the dataset either
                        opened |= {n for n in w.poll() if n.endswith(dsreal.EXT)}
                        return got, opened

                    status, val = _timed(go, timeout=60)
                    w.close()
                    if status == "hang":
                        out["problems"].append(("take-hangs", f"{fmt} {iface} {cfg}: taking {cfg['take']} examples "
                                                f"from {S} shards (and abandoning the iterator) did not return", cfg))
                        return out
                    if status == "raise":
                        out["problems"].append(("raised", f"{fmt} {iface} {cfg}: {type(val).__name__}: {val}", cfg))
                        break
                    got, opened = val
                    if len(got) != min(cfg["take"], S * eps):
                        out["problems"].append(("short", f"{fmt} {iface} {cfg}: got {len(got)} examples", cfg))
                    best = max(best, len(opened))
                row["opened"][str(S)] = best
            out["rows"].append(row)
    except Exception:  # pylint: disable=broad-except
        out["error"] = traceback.format_exc()
    finally:
        shutil.rmtree(tmp, ignore_errors=True)
    return out


def run(ctx: Ctx) -> None:
    q = ctx.quick
    ctx.assumptions += ["today's exact constants (buffer sizes, 2T+2 prefill, T outstanding tasks) are reported but a "
                        "different constant is not an alarm: the alarm bound is 4*(shuffle + file_parallelism) + 8 "
                        "shards beyond those needed, a function of the configuration only",
                        "opened files are observed with inotify (covers Python, TensorFlow and Rust threads); threaded "
                        "paths are measured as maxima over repeated runs"]
    # ---------------------------------------------------------------- 1. models: bounds independent of the source length
    for B in (1, 2, 3):
        for N in (B, 2 * B + 1, 6):
            R._mc(ctx, "ShuffleBuffer", f"ra_N{N}B{B}", {"N": N, "B": B, "Cyclic": False, "MaxOut": 99},
                  ["ReadAhead", "BagPreserving"])
    for N, B in ((2, 2), (3, 2), (3, 3)):
        R._mc(ctx, "ShuffleBuffer", f"ra_cyclic_N{N}B{B}", {"N": N, "B": B, "Cyclic": True, "MaxOut": 2 * N + 2},
              ["ReadAhead", "Productive"], cons=["Bounded"], deadlock=False)
    for lens in ((1, 1, 1), (1, 1, 1, 1, 1), (2, 0, 1, 2, 1, 1)):
        R._mc(ctx, "RoundRobin", f"ra_L{len(lens)}", {"Lens": lens, "B": 2}, ["OpenBounded", "BagPreserving"])
    for lens in ((1, 1, 1), (1, 1, 1, 1, 1, 1)):
        R._mc(ctx, "BatchMap", f"ra_L{len(lens)}", {"Lens": lens, "P": 2, "Fails": frozenset(), "OneBatch": False},
              ["ReadAhead", "OrderPreserving"])
    prefill = {T: LD.measure_prefill(T) for T in (1, 2, 3)}
    for T, N in ((1, 2), (1, 8), (2, 3), (2, 9)):
        res = LD.model_check(ctx, f"lp_T{T}N{N}", LD.cfg_constants(T, N, (), None, prefill[T]), liveness=False,
                             workers=4)
        ctx.add_tlc(f"LazyPool:T{T}N{N}", res)
        if not res.ok:
            raise MachineryError(f"LazyPool.tla violates {res.violated}")
    for T, N in ((2, 3), (2, 7), (3, 7)):
        cfg = tlc.make_cfg(ctx.tmp / f"pm{T}{N}.cfg", spec="Spec", constants=c15.pm_consts(T, N, [frozenset()], [N + 1]),
                           invariants=["OneOutstanding", "ReadAhead", "Order"])
        res = tlc.run("ParallelMap", cfg, workers=2, coverage=False)
        ctx.add_tlc(f"ParallelMap:T{T}N{N}", res)
        if not res.ok:
            raise MachineryError(f"ParallelMap.tla violates {res.violated}")
    ctx.log(f"TLC: read-ahead invariants of all stages for sources of several lengths: {ctx.cov['states']} distinct "
            f"states, all hold")
    # ---------------------------------------------------------------- 1b. the same invariants for EVERY value of the
    # constants: inductive-invariant proofs checked by the TLA+ proof system (the proof modules EXTEND the modules
    # TLC has just checked and that the replays below bind to the code)
    import concurrent.futures as cf
    from .. import tlaps
    proofs = [("ShuffleBuffer_Proofs", ["ReadAheadForAllSources"]), ("RoundRobin_Proofs", ["OpenBoundedForAllInputs"]),
              ("BatchMap_Proofs", ["ReadAheadForAllInputs"]), ("ParallelMap_Proofs", ["ReadAheadForAllInputs"]),
              ("LazyPool_Proofs", ["InFlightBoundForAllInputs"])]
    with cf.ThreadPoolExecutor(max_workers=5) as ex:
        for f in [ex.submit(tlaps.prove, ctx, m, th) for m, th in proofs]:
            f.result()

    # ---------------------------------------------------------------- 2. stage level measurements on the real code
    import sedpack.io.itertools.itertools as M
    rng = random.Random(ctx.seed + 14)
    stage_rows = []
    for B in (1, 2, 5):
        maxes = []
        for N in (20, 40, 80):
            src = pipes.Source(range(1, N + 1))
            worst = 0
            for k, _x in enumerate(M.shuffle_buffer(src, B), start=1):
                worst = max(worst, src.pulled - k)
            maxes.append(worst)
        stage_rows.append({"stage": "shuffle_buffer", "B": B, "max_read_ahead_for_N_20_40_80": maxes})
        if len(set(maxes)) != 1 or maxes[0] > B + 1:
            ctx.violation("C14|kind=stage-read-ahead|stage=shuffle_buffer", f"shuffle_buffer(B={B}) read ahead "
                          f"{maxes} for sources of 20/40/80 elements (model bound {B + 1})", {"B": B, "maxes": maxes})
        opened = []
        for N in (20, 40, 80):
            opens = {"n": 0}

            def outer(n=N, o=opens):
                for k in range(n):
                    o["n"] += 1
                    yield iter([10 * k + 1, 10 * k + 2])

            worst = 0
            done = 0
            for k, _x in enumerate(M.round_robin(outer(), B), start=1):
                worst = max(worst, opens["n"] - (k // 2))
            opened.append(worst)
        stage_rows.append({"stage": "round_robin", "B": B, "max_open_beyond_consumed_for_20_40_80": opened})
        if len(set(opened)) != 1 or opened[0] > B + 1:
            ctx.violation("C14|kind=stage-read-ahead|stage=round_robin", f"round_robin(B={B}) opened {opened} inner "
                          f"iterables beyond those consumed for 20/40/80 iterables", {"B": B, "opened": opened})
    for T in (1, 2, 4):
        maxes = []
        for N in (30, 60, 120):
            ex = LD.run_free(T=T, N=N)
            maxes.append(ex.result["rounds"][0]["max_ahead"])
        pf = LD.measure_prefill(T)
        stage_rows.append({"stage": "lazy_pool", "T": T, "prefill": pf, "max_pulled_minus_yielded_for_30_60_120": maxes})
        if max(maxes) > pf + 1 or max(maxes) > 4 * T + 8:
            ctx.violation("C14|kind=stage-read-ahead|stage=lazy_pool", f"LazyPool(T={T}) pulled up to {maxes} inputs "
                          f"beyond the results consumed (prefill {pf})", {"T": T, "maxes": maxes})
        # adversarial schedules (e.g. a consumer so slow that the workers drain the work queue between two pulls)
        sched = []
        for N in (20, 40, 80):
            worst = 0
            for k in range(6 if ctx.quick else 30):
                exs = LD.run_scheduled(T=T, N=N, chooser=LD.random_chooser(ctx.seed * 991 + 17 * N + k + T))
                if exs.deadlock is None and exs.result.get("rounds"):
                    worst = max(worst, exs.result["rounds"][0]["max_ahead"])
            sched.append(worst)
        stage_rows.append({"stage": "lazy_pool (seeded schedules)", "T": T, "prefill": pf,
                           "max_pulled_minus_yielded_for_20_40_80": sched})
        if max(sched) > pf + 1 or max(sched) > 4 * T + 8:
            ctx.violation("C14|kind=stage-read-ahead|stage=lazy_pool", f"LazyPool(T={T}) under seeded schedules pulled "
                          f"up to {sched} inputs beyond the results consumed for sources of 20/40/80 elements "
                          f"(prefill {pf})", {"T": T, "maxes": sched})
        ex = LD.run_free(T=T, N=None, abandon=5)  # endless source: a finite take must come back
        if ex.deadlock is not None or ex.result["rounds"][0]["outcome"] != "left":
            ctx.violation("C14|kind=take-from-endless|stage=lazy_pool", f"LazyPool(T={T}) over an endless source: "
                          f"{ex.deadlock or ex.result['rounds'][0]['outcome']}", {"T": T})
    ctx.cov["stage_measurements"] = stage_rows
    ctx.count("traces_validated_against_impl", len(stage_rows))

    # ---------------------------------------------------------------- 3. end to end: shard files opened vs shards present
    from .. import rustext
    rustext.build()
    configs = []
    for iface in ("numpy", "concurrent", "async", "rust", "tfdata"):
        for shuffle, fp in ((0, 1), (0, 2), (5, 2), (2, 4)):
            if iface == "numpy" and fp > 1 and shuffle == 0:
                continue
            for repeat in (False, True):
                for take in (1, 5):
                    if q and take == 5 and repeat is False:
                        continue
                    configs.append({"iface": iface, "shuffle": shuffle, "fp": fp, "repeat": repeat, "take": take})
    # a consumer that is slower than the readers (it pauses between examples) and takes a good part of the dataset:
    # whatever was read ahead must still be bounded by the configuration, not grow with what has been consumed
    for iface in ("concurrent", "async", "rust", "tfdata"):
        for shuffle, fp in ((0, 2), (0, 4), (3, 2)):
            configs.append({"iface": iface, "shuffle": shuffle, "fp": fp, "repeat": False, "take": 60, "pace": 0.01})
    tasks = [{"fmt": fmt, "compression": "", "sizes": [20, 40, 80], "configs": configs, "reps": 2 if q else 4}
             for fmt in ("fb", "npz", "tfrec")]
    try:
        outs = H.run_histories(tasks, fn=lazy_measure)
    finally:
        H.shutdown_pool()
    n_rows = 0
    table = []
    for t, o in zip(tasks, outs):
        if o["error"]:
            raise MachineryError(o["error"])
        for kind, what, cfg in o["problems"]:
            ctx.violation(f"C14|kind={kind}|iface={cfg['iface']}", what, {"config": cfg, "fmt": t["fmt"]})
        for row in o["rows"]:
            n_rows += 1
            needed = math.ceil(row["take"] / 2)      # two examples per shard; never more than the dataset has
            bound = 4 * (row["shuffle"] + row["fp"]) + 8 + needed
            vals = [row["opened"].get(str(S), 0) for S in t["sizes"]]
            table.append({k: row[k] for k in ("fmt", "iface", "shuffle", "fp", "repeat", "take")} | {"opened": vals} |
                         ({"pace": row["pace"]} if row.get("pace") else {}))
            if max(vals) > bound:
                ctx.violation(f"C14|kind=opens-scale-with-dataset|iface={row['iface']}",
                              f"{row['fmt']} {row['iface']} shuffle={row['shuffle']} file_parallelism={row['fp']} "
                              f"repeat={row['repeat']}: taking {row['take']} examples opened {vals} shard files for "
                              f"datasets of {t['sizes']} shards (bound from the configuration alone: {bound})",
                              {"row": row})
    ctx.cov["end_to_end_rows"] = n_rows
    ctx.cov["opened_shard_files_table"] = table[:60]
    ctx.count("traces_validated_against_impl", n_rows)
    ctx.sample(table[0] if table else {})
    ctx.sample(table[-1] if table else {})
    ctx.log(f"{len(stage_rows)} stage-level read-ahead measurements; {n_rows} end-to-end (interface, configuration) "
            f"rows x datasets of 20/40/80 shards measured with inotify")


def replay(ctx: Ctx, body: dict) -> None:
    raise MachineryError("replay: re-run ./check C14 (measurements are regenerated from the seed)")
