"""C05 - the integrity check accepts every committed dataset and detects every modification.

Model: Integrity.tla (EXTENDS Dataset): after any quiescent state of any history one Tamper step (garbage,
deletion, rollback to any older version, replacement by another file's content) on any file; invariants
PassWhenClean, DetectTamper (reachable file, >=1 algorithm), DetectInfoTamper (description, expected checksum
supplied). Check is the TLA+ transcription of dataset_writing.check; that the real check() IS this algorithm is
established by fault enumeration on real datasets built by replaying TLC histories: every reachable file x
{bit flips, truncations, extensions, deletion, swap with sibling, rollback to every recorded older version}."""
from __future__ import annotations

import concurrent.futures as cf
import json
import os
import random
import shutil
import tempfile
import traceback
from pathlib import Path

from .. import dshist as H, dsreal, tlc
from ..core import Ctx, MachineryError

LEVEL = "fault_enumeration"
FS = frozenset
ALGOS = ["md5", "sha1", "sha224", "sha256", "sha384", "sha512", "sha3_224", "sha3_256", "sha3_384", "sha3_512",
         "xxh32", "xxh64", "xxh128"]


def _integrity(ctx: Ctx, name: str, c: dict, invariants, workers=6, timeout=1500):
    d = ctx.tmp / f"int_{name}"
    mod, cfg = tlc.make_model(d, "Integrity", c, spec="ISpec", invariants=list(invariants))
    return tlc.run(mod, cfg, workers=workers, workdir=d, coverage=False, timeout=timeout)


HISTORIES = {
    "flat": [("Create", []), ("BeginFiller", [[]]), ("Write", [0, "train", "None", "good"]),
             ("Write", [0, "train", "None", "good"]), ("Write", [0, "train", "A", "good"]),
             ("Write", [0, "test", "None", "good"]), ("ExitFiller", [0]), ("SessionDone", [])],
    "continued": [("Create", []), ("BeginFiller", [[]]), ("Write", [0, "train", "None", "good"]), ("ExitFiller", [0]),
                  ("SessionDone", []), ("Open", []), ("BeginFiller", [[]]), ("Write", [0, "train", "None", "good"]),
                  ("Write", [0, "train", "None", "good"]), ("Write", [0, "train", "None", "good"]),
                  ("ExitFiller", [0]), ("SessionDone", []), ("BeginFiller", [[]]),
                  ("Write", [0, "test", "B", "good"]), ("ExitFiller", [0]), ("SessionDone", [])],
    "nested": [("Create", []), ("BeginFiller", [["s", "t"]]), ("Write", [0, "train", "None", "good"]),
               ("Write", [0, "train", "None", "good"]), ("Write", [0, "train", "None", "good"]), ("ExitFiller", [0]),
               ("SessionDone", []), ("BeginFiller", [["s"]]), ("Write", [0, "train", "A", "good"]),
               ("ExitFiller", [0]), ("SessionDone", []), ("BeginFiller", [[]]),
               ("Write", [0, "train", "None", "good"]), ("ExitFiller", [0]), ("SessionDone", []),
               ("BeginFiller", [["s", "t"]]), ("Write", [0, "train", "None", "good"]), ("ExitFiller", [0]),
               ("SessionDone", [])],
    "multi": [("Create", []), ("MultiBegin", [2]), ("Write", [1, "train", "None", "good"]),
              ("Write", [2, "train", "None", "good"]), ("Write", [1, "train", "None", "good"]),
              ("Write", [2, "test", "None", "good"]), ("Write", [1, "train", "None", "good"]), ("ExitFiller", [1]),
              ("ExitFiller", [2]), ("MultiEnd", []), ("MultiDone", []), ("BeginFiller", [[]]),
              ("Write", [0, "train", "None", "good"]), ("ExitFiller", [0]), ("SessionDone", []),
              ("MultiBegin", [1]), ("Write", [1, "train", "None", "good"]), ("ExitFiller", [1]), ("MultiEnd", []),
              ("MultiDone", [])],
}


def _snapshot(root: Path) -> dict:
    out = {}
    for dp, _dn, fns in os.walk(root):
        for fn in fns:
            full = Path(dp) / fn
            out[str(full.relative_to(root))] = full.read_bytes()
    return out


def _check_raises(root: Path, expected=()):
    """Fresh handle + check(). Returns (raised?, description)."""
    from sedpack.io import Dataset
    try:
        ds = Dataset(root)
        ds.check(show_progressbar=False, hash_checksums_values=tuple(expected))
        return False, "returned normally"
    except Exception as exc:  # pylint: disable=broad-except
        return True, f"{type(exc).__name__}: {str(exc)[:120]}"


def _reachable(root: Path) -> set:
    """Relative paths of the lists and shard files reachable from the description (walked independently)."""
    info = json.loads((root / "dataset_info.json").read_text())
    out = set()

    def walk(rel):
        out.add(rel)
        j = json.loads((root / rel).read_text())
        for sh in j.get("shard_files", []):
            out.add(sh["file_infos"][0]["file_path"])
        for ch in j.get("children_shard_lists", []):
            walk(ch["shard_list_info_file"]["file_path"])

    for e in info.get("splits", {}).values():
        walk(e["shard_list_info_file"]["file_path"])
    return out


def tamper_dataset(task: dict) -> dict:
    """Worker: build the dataset by replaying the history, then enumerate tampers."""
    out = {"error": None, "evaluations": 0, "cells": [], "misses": [], "info": {}, "sample": None, "clean_fail": None}
    tmp = Path(tempfile.mkdtemp(prefix="verif_c05_"))
    root = tmp / "ds"
    rng = random.Random(task["seed"])
    try:
        rp = dsreal.Replayer(root, task["fmt"], task["compression"], eps=2, hashes=tuple(task["hashes"]))
        older = {}  # rel path -> list of earlier byte versions
        last = {}
        root_sums = None
        try:
            for nm, args in task["labels"]:
                args = tuple(tuple(a) if isinstance(a, list) else a for a in args)
                if rp.step(nm, args):
                    snap = _snapshot(root)
                    for rel, data in snap.items():
                        if rel in last and last[rel] != data and last[rel] not in older.get(rel, []):
                            older.setdefault(rel, []).append(last[rel])
                    last = snap
            root_sums = rp.ds.current_metadata_checksums()
        finally:
            rp.close()
        hashing = bool(task["hashes"])
        raised, how = _check_raises(root)
        if raised:
            out["clean_fail"] = how
            return out
        raised, how = _check_raises(root, root_sums)
        if raised:
            out["clean_fail"] = "with the expected description checksums: " + how
            return out
        reach = sorted(_reachable(root))
        out["info"] = {"files": len(last), "reachable": len(reach), "older_versions": sum(len(v) for v in older.values())}
        clean = dict(last)

        def trial(rel, kind, new_bytes, expected=(), demand=True):
            p = root / rel
            st0 = p.stat()
            if new_bytes is None:
                p.unlink()
            else:
                p.write_bytes(new_bytes)
                # the alteration keeps the file's time stamps (silent corruption and deliberate tampering both do);
                # the dataset was written - and hashed - by this very process a moment ago
                os.utime(p, ns=(st0.st_atime_ns, st0.st_mtime_ns))
            try:
                raised, how = _check_raises(root, expected)
            finally:
                p.write_bytes(clean[rel])
                os.utime(p, ns=(st0.st_atime_ns, st0.st_mtime_ns))
            out["evaluations"] += 1
            cls = "info" if rel == "dataset_info.json" else ("list" if rel.endswith("shards_list.json") else "shard")
            out["cells"].append(f"{cls}|{kind.split(':')[0]}")
            if demand and not raised:
                out["misses"].append({"file": rel, "class": cls, "tamper": kind, "outcome": how})
            if out["sample"] is None and kind.startswith("flip"):
                out["sample"] = {"file": rel, "tamper": kind, "outcome": how}

        nflip = task["flips"]
        for rel in reach:
            data = clean[rel]
            n = len(data)
            if task["all_offsets"]:
                offs = list(range(n))
            else:
                offs = sorted({0, n - 1, n // 2} | {rng.randrange(n) for _ in range(nflip)}) if n else []
            for o in offs:
                b = bytearray(data)
                b[o] ^= 1 << rng.randrange(8)
                trial(rel, f"flip:{o}", bytes(b), demand=hashing)
            cuts = range(n) if task["all_offsets"] else sorted({0, 1, n // 2, n - 1} & set(range(n)))
            for c in cuts:
                trial(rel, f"truncate:{c}", data[:c], demand=hashing)
            # byte changes that keep a JSON document equivalent (line endings, white space) are modifications too
            if b"\n" in data:
                nl = [i for i, b in enumerate(data) if b == 0x0A]
                k = nl[rng.randrange(len(nl))]
                trial(rel, "newline:lf-to-cr", data[:k] + b"\r" + data[k + 1:], demand=hashing)
                trial(rel, "newline:insert-cr", data[:k] + b"\r" + data[k:], demand=hashing)
                trial(rel, "newline:all-crlf", data.replace(b"\n", b"\r\n"), demand=hashing)
            if b" " in data:
                k = data.index(b" ")
                trial(rel, "whitespace:space-to-tab", data[:k] + b"\t" + data[k + 1:], demand=hashing)
            trial(rel, "extend:nul", data + b"\x00", demand=hashing)
            trial(rel, "extend:newline", data + b"\n", demand=hashing)
            trial(rel, "delete", None, demand=hashing)
            sib = [r for r in reach if r != rel and r.endswith("shards_list.json") == rel.endswith("shards_list.json")
                   and clean[r] != data]
            for r in sib[:3 if not task["all_offsets"] else None]:
                trial(rel, f"swap:{r}", clean[r], demand=hashing)
            for k, old in enumerate(older.get(rel, [])):
                if old != data:
                    trial(rel, f"rollback:{k}", old, demand=hashing)
        # the description itself: detected when its expected checksums are supplied
        data = clean["dataset_info.json"]
        if hashing:
            trial("dataset_info.json", "extend:newline+expected", data + b"\n", expected=root_sums)
            b = bytearray(data)
            pos = data.index(b'"description"') + 3
            b[pos] ^= 0x20
            trial("dataset_info.json", "flip:+expected", bytes(b), expected=root_sums)
            for k, old in enumerate(older.get("dataset_info.json", [])):
                trial("dataset_info.json", f"rollback:{k}+expected", old, expected=root_sums)
            # well-formed edits of the description (an attacker who can write the file can also write valid JSON):
            # the configured algorithm list emptied / shortened / reordered, a count changed, a split dropped
            try:
                doc = json.loads(data)
            except ValueError:
                doc = None
            if isinstance(doc, dict):
                def edits(d):
                    ds = d.get("dataset_structure", {})
                    algos = list(ds.get("hash_checksum_algorithms", []))
                    for name, new in (("no-algorithms", []), ("fewer-algorithms", algos[:-1]),
                                      ("reordered-algorithms", algos[::-1]), ("one-algorithm-repeated", algos[:1] * 2)):
                        if new != algos:
                            e = json.loads(json.dumps(d))
                            e["dataset_structure"]["hash_checksum_algorithms"] = new
                            yield name, e
                    for sp, info in d.get("splits", {}).items():
                        e = json.loads(json.dumps(d))
                        e["splits"][sp]["number_of_examples"] = info.get("number_of_examples", 0) + 1
                        yield f"count+1:{sp}", e
                        e = json.loads(json.dumps(d))
                        del e["splits"][sp]
                        yield f"split-dropped:{sp}", e
                        break
                for name, e in edits(doc):
                    trial("dataset_info.json", f"edit:{name}+expected", json.dumps(e, indent=2).encode(),
                          expected=root_sums)
            # without expected checksums nothing is demanded for a change that keeps the document loadable
            trial("dataset_info.json", "extend:newline-noexpected", data + b"\n", demand=False)
        # unreachable files (orphans): no demand
        orphans = [r for r in clean if r not in reach and r != "dataset_info.json"]
        for r in orphans[:2]:
            trial(r, "orphan-garbage", b"garbage", demand=False)
    except Exception:  # pylint: disable=broad-except
        out["error"] = traceback.format_exc()
    finally:
        shutil.rmtree(tmp, ignore_errors=True)
    return out


def run(ctx: Ctx) -> None:
    q = ctx.quick
    c = H.consts
    ctx.assumptions += [
        "no digest collisions; a swap of two byte-identical files is not a modification",
        "detection = check() on a fresh handle raises (any exception) instead of returning",
        "the model enumerates tamper kinds at file granularity; byte-level kinds (bit flips, truncation lengths) are "
        "enumerated on real files" + (" at sampled offsets" if q else " at every offset of every file"),
    ]
    inv = ["PassWhenClean", "DetectTamper", "DetectInfoTamper"]
    mc = [("integrity_tree", c(Splits=FS({"train"}), MaxSessions=2, MaxWrites=2), inv),
          ("integrity_2splits_flat", c(FillerDirs=FS({()}), MaxK=1, MaxSessions=2, MaxWrites=2), inv),
          ("integrity_no_algorithms", c(Splits=FS({"train"}), MaxSessions=2, MaxWrites=1, Hashing=False),
           ["PassWhenClean"])]
    if not q:
        mc.append(("integrity_tree_3sessions", c(Splits=FS({"train"}), MaxSessions=3, MaxWrites=2), inv))
    with cf.ThreadPoolExecutor(max_workers=3) as ex:
        futs = [(n, ex.submit(_integrity, ctx, n, cc, i)) for n, cc, i in mc]
        sf = ex.submit(_integrity, ctx, "sanity", c(Splits=FS({"train"}), MaxSessions=2, MaxWrites=1,
                                                    CheckChildren=False), ["DetectTamper"], 2)
        for n, f in futs:
            res = f.result()
            ctx.add_tlc(n, res)
            if not res.ok:
                raise MachineryError(f"Integrity.tla ({n}) violates {res.violated}")
            ctx.log(f"TLC {n}: {res.distinct} distinct states (histories x tampers), {res.wall_s:.0f}s - "
                    f"PassWhenClean / DetectTamper / DetectInfoTamper hold")
        res = sf.result()
        if "DetectTamper" not in res.violated:
            raise MachineryError("model sanity: a check that does not recurse into child lists was not refuted")
        ctx.cov["model_sanity"] = "CheckChildren=FALSE (no recursion into child lists): DetectTamper violated by " + \
                                  json.dumps(tlc.tlaval.plain(res.error_trace[-1][1].get("tam")))
    ctx.cov["tlc_states"] = ctx.cov.pop("states", 0)
    ctx.cov["tlc_transitions"] = ctx.cov.pop("transitions", 0)

    rng = random.Random(ctx.seed + 5)
    tasks = []
    combos = [("fb", "", ["sha256"]), ("npz", "", ["md5", "xxh64"]), ("tfrec", "", ["sha1"]),
              ("fb", "LZ4", list(ALGOS)), ("fb", "GZIP", ["sha256", "sha256"]), ("tfrec", "GZIP", ["xxh128"]),
              ("npz", "ZIP", ["sha3_256", "xxh32"]), ("fb", "", [])]
    names = list(HISTORIES)
    n_ds = 12 if q else 32
    for i in range(n_ds):
        fmt, comp, hashes = combos[i % len(combos)]
        if i >= len(combos):
            hashes = rng.sample(ALGOS, rng.randint(1, 4))
        hist = names[i % len(names)] if i < 8 else rng.choice(names)
        tasks.append({"labels": HISTORIES[hist], "history": hist, "fmt": fmt, "compression": comp, "hashes": hashes,
                      "seed": ctx.seed * 1000 + i, "flips": 32, "all_offsets": (not q) and i < 12})
    try:
        outs = H.run_histories(tasks, fn=tamper_dataset)
    finally:
        H.shutdown_pool()
    cells = set()
    total = 0
    for t, o in zip(tasks, outs):
        if o["error"]:
            raise MachineryError(o["error"])
        tag = f"{t['fmt']}/{t['compression']} {t['history']} algos={t['hashes']}"
        if o["clean_fail"]:
            ctx.violation(f"C05|kind=clean-check-fails|fmt={t['fmt']}", f"{tag}: check() on the untouched dataset: "
                          f"{o['clean_fail']}", {"task": t})
            continue
        total += o["evaluations"]
        cells |= {f"{t['fmt']}|{c}" for c in o["cells"]}
        for m in o["misses"]:
            ctx.violation(f"C05|kind=undetected|class={m['class']}|tamper={m['tamper'].split(':')[0]}|fmt={t['fmt']}",
                          f"{tag}: {m['tamper']} of {m['file']} is not detected: check() {m['outcome']}",
                          {"task": t, "miss": m})
        if o["sample"]:
            ctx.sample({"dataset": tag, **o["info"], "example": o["sample"]})
    ctx.cov["evaluations"] = total
    ctx.cov["distinct_nontrivial"] = len(cells)
    ctx.cov["rule"] = ("one evaluation = one tampered copy of one reachable file checked by a fresh handle; distinct "
                       "non-trivial cases are counted as distinct (format, file class, tamper kind) triples; "
                       "datasets are built by replaying flat / continued / nested / multi-writer histories")
    ctx.cov["datasets"] = len(tasks)
    ctx.log(f"{total} tampered copies checked on {len(tasks)} real datasets, {len(cells)} distinct "
            f"(format, file class, tamper kind) cells")


def replay(ctx: Ctx, body: dict) -> None:
    t = body["witness"]["task"]
    o = tamper_dataset(t)
    ctx.cov["evaluations"] = max(1, o["evaluations"])
    ctx.cov["distinct_nontrivial"] = max(2, len(set(o["cells"])))
    ctx.cov["rule"] = "replay of one dataset's tamper enumeration"
    if o["error"]:
        raise MachineryError(o["error"])
    for m in o["misses"]:
        ctx.violation(f"C05|kind=undetected|class={m['class']}|tamper={m['tamper'].split(':')[0]}|fmt={t['fmt']}",
                      f"{m['tamper']} of {m['file']} is not detected: check() {m['outcome']}", {"task": t, "miss": m})
