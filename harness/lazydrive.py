"""Drivers binding spec/LazyPool.tla to the real LazyPool: TLC runs, schedule replay (spec -> code),
seeded schedule exploration on the real threads, free-running trace validation (code -> spec)."""
from __future__ import annotations

import concurrent.futures as cf
import json
import queue as _queue
import random
import re
import threading
import time
from pathlib import Path

from . import tlc
from .core import Ctx, MachineryError
from . import lazyshim as LS
from .lazyshim import LP


def cfg_constants(T, N, fails=(), abandon=None, prefill=None, rounds=1, defect=False):
    return {"T": T, "N": N, "Fails": frozenset(fails), "AbandonAfter": (N + 1 if abandon is None else abandon),
            "Prefill": prefill if prefill is not None else 2 * T + 2, "Rounds": rounds, "Defect": defect}


SAFETY = ("TypeOK", "ExactlyOnce", "NoSilentLoss", "InFlightBound", "SourceReadAhead", "Counting")


# --------------------------------------------------------------------------------------------
# running the real pool


class Exec:
    """Outcome of one execution of the real pool."""

    def __init__(self):
        self.result = {}
        self.deadlock = None
        self.mismatch = None
        self.steps = []
        self.events = []
        self.hang = False


def _cleanup_blocked(ctl: LS.Controller, T: int, threads) -> None:
    """Release every gate, feed sentinels / poison so that blocked threads leave, join them."""
    ctl.release_all()
    for q in list(ctl.queues):
        if q.name.startswith("in"):
            for _ in range(T + 1):
                _queue.Queue.put(q, LP.StopSentinel())
        else:
            _queue.Queue.put(q, LS.Poison())
    for th in threads:
        th.join(5)


def measure_prefill(T: int) -> int:
    """Number of consumer puts before its first get, observed on the real code (never hard-wired)."""
    ex = run_free(T=T, N=10 * T + 20, abandon=1)
    n = 0
    for e in ex.events:
        if e["th"] == "c" and e["op"] == "put":
            n += 1
        if e["th"] == "c" and e["op"] == "get":
            break
    return n


def run_free(*, T, N, fails=(), abandon=None, rounds=1, jitter_seed=None, watchdog=30.0, stall=None) -> Exec:
    """Free-running execution (OS scheduling), logged at the linearization points. A hang is reported when it is
    structural (every live thread waits on an empty queue - decided from the shim's own state, not from the clock);
    when only the watchdog expired, the clock may simply have been too short for a loaded machine: the execution is
    repeated once with a ten times longer watchdog, and only that second verdict counts."""
    ex = _run_free_once(T=T, N=N, fails=fails, abandon=abandon, rounds=rounds, jitter_seed=jitter_seed,
                        watchdog=watchdog, stall=stall)
    if ex.hang and not (ex.deadlock or {}).get("structural"):
        ex = _run_free_once(T=T, N=N, fails=fails, abandon=abandon, rounds=rounds, jitter_seed=jitter_seed,
                            watchdog=10 * watchdog, stall=stall)
    return ex


def _run_free_once(*, T, N, fails=(), abandon=None, rounds=1, jitter_seed=None, watchdog=30.0, stall=None) -> Exec:
    ex = Exec()
    ctl = LS.Controller(scheduled=False)
    rng = random.Random(jitter_seed)
    delays = {}

    def jitter(x):
        if jitter_seed is None:
            return
        d = delays.setdefault(x, rng.choice((0, 0, 0.0002, 0.001, 0.003)))
        if d:
            time.sleep(d)

    with LS.Installed(ctl):
        def body():
            try:
                LS.run_pool(ctl, T=T, N=N, fails=fails, abandon_after=abandon, rounds=rounds, jitter=jitter,
                            result=ex.result, stall=stall)
            finally:
                ctl.thread_done("c", "exit")

        th = threading.Thread(target=body, daemon=True)
        ctl.register(th, "c")
        th.start()
        end = time.time() + watchdog
        stuck = None

        def look():
            blocked = dict(ctl.in_get)
            ok = "c" in blocked and ctl.queue_named(blocked["c"]).qsize() == 0
            for tid in list(ctl.live):
                if tid != "c" and (tid not in blocked or ctl.queue_named(blocked[tid]).qsize() != 0):
                    ok = False
            return ok, blocked, ctl.seq

        while th.is_alive() and time.time() < end:
            th.join(0.05)
            if not th.is_alive():
                break
            # structural deadlock test: consumer blocked in get on an empty queue, every live worker too,
            # and no event logged between two looks
            a = look()
            if a[0]:
                time.sleep(0.05)
                b = look()
                if b[0] and b[2] == a[2] and th.is_alive():
                    stuck = b
                    break
        if th.is_alive():
            ex.hang = True
            if stuck is not None:
                ex.deadlock = {"blocked": stuck[1], "structural": True, "finished": dict(ctl.finished)}
            else:
                ex.deadlock = {"blocked": dict(ctl.in_get), "structural": False, "finished": dict(ctl.finished)}
            workers = [t for t in threading.enumerate() if getattr(t, "_verif_tid", "").startswith("w")]
            _cleanup_blocked(ctl, T, workers + [th])
        # collectors of the last round may still be finishing
        end = time.time() + 10
        while ctl.live and time.time() < end:
            time.sleep(0.001)
        ex.result["left_alive"] = sorted(ctl.live)
    ex.events = list(ctl.events)
    return ex


def run_scheduled(*, T, N, fails=(), abandon=None, rounds=1, chooser, observer=None, max_steps=100_000) -> Exec:
    """Execute the real pool under a scheduler. chooser(enabled, ctl, stepno) -> tid (or raises
    ScheduleMismatch / StopIteration to hand over to a default continuation)."""
    ex = Exec()
    ctl = LS.Controller(scheduled=True)
    with LS.Installed(ctl):
        def body():
            try:
                LS.run_pool(ctl, T=T, N=N, fails=fails, abandon_after=abandon, rounds=rounds, result=ex.result)
            finally:
                ctl.thread_done("c", "exit")

        th = threading.Thread(target=body, daemon=True)
        ctl.register(th, "c")
        th.start()
        following = True
        try:
            for stepno in range(max_steps):
                ctl.wait_quiescent()
                if not ctl.live:
                    break
                en = ctl.enabled()
                if not en:
                    ex.deadlock = {"pending": {k: list(v) for k, v in ctl.pending.items()},
                                   "finished": dict(ctl.finished), "snapshot": ctl.snapshot(), "structural": True}
                    break
                tid = None
                if following:
                    try:
                        tid = chooser(en, ctl, stepno)
                    except StopIteration:
                        following = False
                    except LS.ScheduleMismatch as exc:
                        ex.mismatch = str(exc)
                        following = False
                if tid is None:
                    tid = en[0]  # deterministic continuation after the schedule ended / could not be followed
                op = ctl.pending[tid]
                ex.steps.append(f"{tid}:{op[0]}" + (f":{op[1]}" if op[1] else ""))
                ctl.step(tid)
                if observer is not None and following:
                    try:
                        observer(ctl, stepno, ex)
                    except LS.ScheduleMismatch as exc:
                        ex.mismatch = str(exc)
                        following = False
            else:
                raise MachineryError("schedule did not terminate within max_steps")
        except LS.ScheduleMismatch as exc:
            # a thread did not come back to a gate: treat as machinery-level problem of this execution
            ex.mismatch = f"lost control: {exc}"
        finally:
            if ctl.live:
                workers = [t for t in threading.enumerate() if getattr(t, "_verif_tid", "").startswith("w")]
                _cleanup_blocked(ctl, T, workers + [th])
        ex.result["left_alive"] = sorted(ctl.live)
    ex.events = list(ctl.events)
    return ex


# --------------------------------------------------------------------------------------------
# level-1 oracle on one execution (independent of the model)


def judge(ex: Exec, *, T, N, fails, abandon, rounds, prefill=None) -> list[tuple[str, str]]:
    """Returns [(signature-suffix, description)] of property violations observed in this execution."""
    bad = []
    fl = "yes" if fails else "no"
    if ex.deadlock is not None:
        if ex.deadlock.get("structural"):
            bad.append((f"kind=deadlock|fails={fl}", f"deadlock: every live thread blocked on an empty queue "
                        f"({ex.deadlock.get('pending') or ex.deadlock.get('blocked')})"))
        else:
            bad.append((f"kind=hang|fails={fl}", f"no progress within the watchdog: {ex.deadlock}"))
        return bad
    rs = ex.result.get("rounds", [])
    if len(rs) != rounds:
        bad.append((f"kind=rounds|fails={fl}", f"pool could not be reused: {len(rs)} of {rounds} rounds ran"))
    for i, r in enumerate(rs):
        y = r["yielded"]
        if len(set(y)) != len(y):
            bad.append((f"kind=duplicate|fails={fl}", f"round {i+1}: duplicated result in {y}"))
        if not set(y) <= set(range(1, N + 1)):
            bad.append((f"kind=foreign|fails={fl}", f"round {i+1}: foreign result in {y}"))
        expect_raise = bool(fails) and abandon is None
        if r["outcome"] == "done":
            if sorted(y) != list(range(1, N + 1)):
                bad.append((f"kind=lost|fails={fl}", f"round {i+1}: ended normally with {sorted(y)} of 1..{N}"))
            if fails:
                bad.append((f"kind=silent-failure|fails={fl}", f"round {i+1}: ended normally although the mapped "
                            f"function failed on {sorted(fails)}"))
        elif r["outcome"] == "raised":
            if not fails:
                bad.append((f"kind=spurious-raise|fails={fl}", f"round {i+1}: raised without a failing input"))
        elif r["outcome"] == "left":
            pass
        else:
            bad.append((f"kind=outcome|fails={fl}", f"round {i+1}: outcome {r['outcome']}"))
        if expect_raise and r["outcome"] != "raised":
            bad.append((f"kind=failure-not-raised|fails={fl}", f"round {i+1}: outcome {r['outcome']} although item(s) "
                        f"{sorted(fails)} fail and the consumer did not leave"))
        if r.get("active_after", 0) not in (0,):
            bad.append((f"kind=active-counter|fails={fl}", f"round {i+1}: active counter {r.get('active_after')} "
                        f"after leaving the context"))
    if ex.result.get("left_alive"):
        bad.append((f"kind=threads-alive|fails={fl}", f"Collector threads still alive: {ex.result['left_alive']}"))
    return bad


# --------------------------------------------------------------------------------------------
# spec -> code: replay of TLC paths


_WLABEL = re.compile(r"<<(\d+), (\d+)>>")

_KIND = {"CPrefillPut": ("c", "put", "in"), "CPutNext": ("c", "put", "in"), "CResetPut": ("c", "put", "in"),
         "CGet": ("c", "get", "out"), "CYield": ("c", "yield", None), "CNextRound": ("c", None, None),
         "WGet": ("w", "get", "in"), "WApply": ("w", "apply", None), "WPut": ("w", "put", "out"),
         "WFwd": ("w", "put", "out"), "Finished": (None, None, None)}


def replay_path(path, nodes, *, T, N, fails, abandon, rounds) -> Exec:
    """path: [(label, node id)], nodes: id -> spec state. Executes the schedule on the real pool comparing
    the projected state after every step."""
    binding = {}  # spec worker (r, i) -> real tid
    acts = []
    for label, nid in path:
        name, args = tlc.label_name(label)
        if name == "Finished":
            continue
        acts.append((name, args, nid))
    pos = {"i": 0}

    def chooser(enabled, ctl, stepno):
        while pos["i"] < len(acts) and acts[pos["i"]][0] == "CNextRound":
            pos["i"] += 1
        if pos["i"] >= len(acts):
            raise StopIteration
        name, args, _nid = acts[pos["i"]]
        who, op, qn = _KIND[name]
        if who == "c":
            tid = "c"
        else:
            m = _WLABEL.search(args)
            w = (int(m.group(1)), int(m.group(2)))
            if w not in binding:
                cand = sorted(t for t in ctl.pending if t.startswith(f"w{w[0]}.") and t not in binding.values()
                              and ctl.pending[t][0] == "get")
                if not cand:
                    raise LS.ScheduleMismatch(f"no unbound worker thread for spec worker {w}")
                binding[w] = cand[0]
            tid = binding[w]
        if tid not in ctl.pending:
            raise LS.ScheduleMismatch(f"step {stepno} {name}({args}): thread {tid} not at a gate")
        pop, pq, _px = ctl.pending[tid]
        if pop != op or (qn and not (pq or "").startswith(qn)):
            raise LS.ScheduleMismatch(f"step {stepno} {name}({args}): thread {tid} is about to {pop} {pq}, "
                                      f"the specification expects {op} {qn}")
        if tid not in enabled:
            raise LS.ScheduleMismatch(f"step {stepno} {name}({args}): {tid} blocked (queue empty)")
        return tid

    def observer(ctl, stepno, ex):
        i = pos["i"]
        name, args, nid = acts[i]
        pos["i"] = i + 1
        # the real consumer runs through CNextRound without a gate: compare after it
        j = pos["i"]
        while j < len(acts) and acts[j][0] == "CNextRound":
            nid = acts[j][2]
            j += 1
        st = nodes[nid]
        snap = ctl.snapshot()
        rr = len(st["toProc"])
        exp_in = [list(x) for x in st["toProc"]]
        exp_out = [list(x) for x in st["results"]]
        got_in = (snap["toProc"] + [[]] * rr)[:rr]
        got_out = (snap["results"] + [[]] * rr)[:rr]
        if got_in != exp_in or got_out != exp_out:
            raise LS.ScheduleMismatch(f"after step {stepno} {name}({args}): queues {got_in}/{got_out} != spec "
                                      f"{exp_in}/{exp_out}")
        ys = [r["yielded"] for r in ex.result.get("rounds", [])]
        exp_y = [list(x) for x in st["yielded"]][:len(ys)]
        if ys != exp_y:
            raise LS.ScheduleMismatch(f"after step {stepno} {name}({args}): yielded {ys} != spec {exp_y}")
        for w, tid in binding.items():
            sw = st["wpc"][w]
            rw = snap["wpc"].get(tid, "?")
            if sw != rw:
                raise LS.ScheduleMismatch(f"after step {stepno} {name}({args}): worker {tid} is {rw}, spec {sw}")
        pool = ex.result.get("pool")
        if pool is not None and st["cpc"] in ("get", "putnext", "yield") \
                and pool._active_threads != st["active"]:  # pylint: disable=protected-access
            raise LS.ScheduleMismatch(f"after step {stepno}: active {pool._active_threads} != spec {st['active']}")

    ex = run_scheduled(T=T, N=N, fails=fails, abandon=abandon, rounds=rounds, chooser=chooser, observer=observer)
    ex.followed = pos["i"]
    ex.path_len = len([a for a in acts if a[0] != "CNextRound"])
    return ex


def random_chooser(seed):
    rng = random.Random(seed)

    def chooser(enabled, ctl, stepno):
        return rng.choice(enabled)

    return chooser


# --------------------------------------------------------------------------------------------
# code -> spec: trace validation


def events_to_trace(events) -> list[dict]:
    out = []
    for e in events:
        if e["op"] in ("pull", "die"):
            continue
        th = e["th"]
        if th == "c":
            out.append({"th": "c", "r": 0, "i": 0, "op": e["op"], "x": e["x"] if isinstance(e["x"], int) else -999})
        else:
            m = re.match(r"w(\d+)\.(\d+)", th)
            out.append({"th": "w", "r": int(m.group(1)), "i": int(m.group(2)), "op": e["op"],
                        "x": e["x"] if isinstance(e["x"], int) else -999})
    return out


def validate_traces(ctx: Ctx, consts: dict, traces: list[list[dict]], tag: str):
    """Validate a batch of traces recorded under the same constants. Returns list of (reached, length+1)."""
    d = ctx.tmp / f"tv_{tag}"
    d.mkdir(exist_ok=True)
    tf = d / "traces.json"
    tf.write_text(json.dumps(traces))
    cfg = tlc.make_cfg(d / "t.cfg", spec="TSpec", constants=consts, constraints=["Reach"], postcondition="Report",
                       invariants=list(SAFETY))
    res = tlc.run("LazyPool_Trace", cfg, workers=1, env={"TRACE_FILE": str(tf)}, coverage=False, dfs_queue=True)
    reached = {}
    for p in res.prints:
        if isinstance(p, tuple) and p and p[0] == "REACHED":
            reached[p[1]] = (p[2], p[3])
    if len(reached) != len(traces):
        raise MachineryError(f"trace validation reported {len(reached)} of {len(traces)} traces\n{res.out[-1500:]}")
    return res, [reached[i + 1] for i in range(len(traces))]


# --------------------------------------------------------------------------------------------
# model checking helpers


def model_check(ctx: Ctx, name: str, consts: dict, *, liveness=True, workers=4, dump: Path | None = None,
                expect_violation=False, timeout=1800):
    d = ctx.tmp / f"mc_{name}"
    d.mkdir(exist_ok=True)
    props = ["Termination", "FaultSurfaces"] if liveness else []
    cfg = tlc.make_cfg(d / "mc.cfg", spec="FairSpec" if liveness else "Spec", constants=consts,
                       invariants=list(SAFETY), properties=props, deadlock=True)
    res = tlc.run("LazyPool", cfg, workers=workers, dump=dump, timeout=timeout)
    return res


def parallel(jobs, max_workers=8):
    """jobs: list of (callable, args, kwargs) -> results in order."""
    with cf.ThreadPoolExecutor(max_workers=max_workers) as ex:
        futs = [ex.submit(f, *a, **k) for f, a, k in jobs]
        return [f.result() for f in futs]
