"""Scheduling / logging shim for sedpack.io.itertools.lazy_pool (no change to /repo).

The name `queue` inside the lazy_pool module is replaced by a module-like object whose Queue class
(a) logs every _put/_get *inside the queue's own mutex* (the linearization point) with a global sequence
number and (b) in scheduled mode makes every thread wait for a grant before each queue operation, before
each application of the mapped function and before each result is taken by the caller, so a driver can
impose any interleaving at exactly the granularity of spec/LazyPool.tla.

Abstract values: input / result items are ints 1..N, the StopSentinel is 0, a failure of item x is -x.
"""
from __future__ import annotations

import itertools
import queue as _queue
import threading
import time
import types

from sedpack.io.itertools import lazy_pool as LP


class ItemFailure(Exception):
    """Raised by the mapped function. Like many real exception classes (UnicodeDecodeError, json.JSONDecodeError,
    tf.errors.OpError, ...) it cannot be rebuilt from a single message string."""

    def __init__(self, x: int, detail: str):
        super().__init__(f"mapped function failed on item {x}: {detail}")
        self.x = x
        self.detail = detail


class Poison:
    """Injected by the harness to release a consumer that is provably blocked forever."""


class Deadlock(Exception):

    def __init__(self, state):
        super().__init__("all live threads are blocked on empty queues")
        self.state = state


class ScheduleMismatch(Exception):
    """The code cannot follow the schedule (protocol-level drift)."""


def abstract(x):
    if isinstance(x, LP.StopSentinel):
        return 0
    if isinstance(x, bool):
        return "?"
    if isinstance(x, int):
        return x
    if isinstance(x, Poison):
        return "P"
    if isinstance(x, ItemFailure):
        return -x.x
    # repaired code wraps the exception of the mapped function in some carrier object
    try:
        vals = list(vars(x).values())
    except TypeError:
        vals = list(x) if isinstance(x, (tuple, list)) else []
    for v in vals:
        if isinstance(v, ItemFailure):
            return -v.x
    return "?"


class Controller:

    def __init__(self, scheduled: bool):
        self.scheduled = scheduled
        self.cv = threading.Condition()
        self.pending: dict[str, tuple] = {}  # tid -> (op, qname, value)
        self.grant: str | None = None
        self.live: set[str] = set()
        self.finished: dict[str, str] = {}  # tid -> "exit" | "dead"
        self.loglock = threading.Lock()
        self.seq = 0
        self.events: list[dict] = []
        self.queues: list["ShimQueue"] = []
        self.nworkers = 0
        self.round = 1
        self.in_get: dict[str, str] = {}  # free-running: tid -> qname while blocked in get
        self.free_all = False

    # ---- thread identity
    @staticmethod
    def tid():
        return getattr(threading.current_thread(), "_verif_tid", None)

    def register(self, thread, tid: str) -> None:
        thread._verif_tid = tid  # pylint: disable=protected-access
        with self.cv:
            self.live.add(tid)

    def thread_done(self, tid: str, how: str) -> None:
        with self.cv:
            self.live.discard(tid)
            self.finished[tid] = how
            self.pending.pop(tid, None)
            self.cv.notify_all()

    # ---- logging
    def event(self, op: str, q: str | None, x, tid: str | None = None) -> None:
        tid = tid or self.tid()
        if tid is None:
            return
        with self.loglock:
            self.seq += 1
            self.events.append({"seq": self.seq, "th": tid, "op": op, "q": q or "", "x": x})

    # ---- gates
    def gate(self, op: str, q: str | None = None, x=None) -> None:
        if not self.scheduled:
            return
        tid = self.tid()
        if tid is None:
            return
        with self.cv:
            if self.free_all:
                return
            self.pending[tid] = (op, q, x)
            self.cv.notify_all()
            while self.grant != tid and not self.free_all:
                self.cv.wait()
            if self.grant == tid:
                self.grant = None
            self.pending.pop(tid, None)
            self.cv.notify_all()

    # ---- driver side
    def wait_quiescent(self, timeout: float = 90.0) -> None:
        """Wait until every live thread is parked at a gate."""
        end = time.time() + timeout
        with self.cv:
            while not (self.live <= set(self.pending)) or self.grant is not None:
                left = end - time.time()
                if left <= 0:
                    raise ScheduleMismatch(f"threads did not reach a gate: live={sorted(self.live)} "
                                           f"pending={self.pending}")
                self.cv.wait(left)

    def enabled(self) -> list[str]:
        out = []
        for tid, (op, q, _x) in self.pending.items():
            if op == "get" and _x != "timed" and self.queue_named(q).qsize() == 0:
                continue    # an untimed get on an empty queue blocks; a timed one can always expire
            out.append(tid)
        return sorted(out)

    def step(self, tid: str) -> None:
        with self.cv:
            if tid not in self.pending:
                raise ScheduleMismatch(f"{tid} is not waiting at a gate (pending={self.pending})")
            self.grant = tid
            self.cv.notify_all()
        self.wait_quiescent()

    def release_all(self) -> None:
        with self.cv:
            self.free_all = True
            self.cv.notify_all()

    def queue_named(self, name: str) -> "ShimQueue":
        for q in self.queues:
            if q.name == name:
                return q
        raise KeyError(name)

    def snapshot(self) -> dict:
        """Abstract state as seen from outside (only meaningful when quiescent)."""
        rounds = max(1, (len(self.queues) + 1) // 2)
        to_proc, results = [], []
        for r in range(1, rounds + 1):
            for nm, dst in ((f"in{r}", to_proc), (f"out{r}", results)):
                try:
                    q = self.queue_named(nm)
                    dst.append([abstract(x) for x in list(q.queue)])
                except KeyError:
                    dst.append([])
        wpc = {}
        for tid in list(self.live) + list(self.finished):
            if not tid.startswith("w"):
                continue
            if tid in self.finished:
                wpc[tid] = self.finished[tid]
            elif tid in self.pending:
                op, q, x = self.pending[tid]
                if op == "get":
                    wpc[tid] = "get"
                elif op == "apply":
                    wpc[tid] = "apply"
                elif op == "put":
                    wpc[tid] = "fwd" if x == 0 else "put"
            else:
                wpc[tid] = "?"
        return {"toProc": to_proc, "results": results, "wpc": wpc}


class ShimQueue(_queue.Queue):
    """queue.Queue with gates (scheduled mode) and in-mutex logging."""
    ctl: Controller = None  # type: ignore[assignment]

    def __init__(self, maxsize: int = 0):
        super().__init__(maxsize)
        ctl = type(self).ctl
        n = len(ctl.queues)
        self.name = ("in" if n % 2 == 0 else "out") + str(n // 2 + 1)
        ctl.queues.append(self)

    def put(self, item, block=True, timeout=None):
        ctl = type(self).ctl
        ctl.gate("put", self.name, abstract(item))
        return super().put(item, block, timeout)

    def get(self, block=True, timeout=None):
        ctl = type(self).ctl
        ctl.gate("get", self.name, "timed" if (block and timeout is not None) else None)
        tid = ctl.tid()
        if block and timeout is not None and tid is not None and ctl.scheduled:
            # virtual time: a timed wait may expire whenever there is nothing to take - under an imposed schedule
            # "the thread was granted its step while the queue was empty" IS that expiry, whatever the number of
            # seconds in the code says (today's code has no timed waits at all)
            with self.mutex:
                nothing = not self._qsize()
            if nothing:
                ctl.event("timeout", self.name, 0)
                # the expiry was decided under the queue's mutex; the exception reaches the caller later - other
                # threads may run in between (check-then-act races on "nothing came" live in exactly that window)
                ctl.gate("tmo", self.name, "timed")
                raise _queue.Empty
        # "waiting in get" is true from here until the moment the item is TAKEN (cleared in _get, inside the queue's
        # mutex) - not until get() returns: a thread that already holds an item but has not been scheduled again is
        # not waiting, however long the operating system keeps it off the processor. A timed get is never counted
        # as waiting (it can expire by itself).
        if tid is not None and block and timeout is None:
            ctl.in_get[tid] = self.name
        try:
            return super().get(block, timeout)
        finally:
            if tid is not None:
                ctl.in_get.pop(tid, None)

    # called with self.mutex held
    def _put(self, item):
        super()._put(item)
        type(self).ctl.event("put", self.name, abstract(item))

    def _get(self):
        item = super()._get()
        ctl = type(self).ctl
        tid = ctl.tid()
        if tid is not None:
            ctl.in_get.pop(tid, None)
        ctl.event("get", self.name, abstract(item))
        return item


def _make_queue_module(ctl: Controller):
    cls = type("ShimQueueBound", (ShimQueue,), {"ctl": ctl})
    mod = types.SimpleNamespace(Queue=cls, Empty=_queue.Empty, Full=_queue.Full)
    return mod


class Source:
    """Input iterable 1..N (N may be None for an endless source) that logs every pull."""

    def __init__(self, ctl: Controller, n):
        self.ctl = ctl
        self.n = n
        self.pulled = 0

    def __iter__(self):
        return self

    def __next__(self):
        if self.n is not None and self.pulled >= self.n:
            raise StopIteration
        self.pulled += 1
        self.ctl.event("pull", None, self.pulled)
        return self.pulled


class Installed:
    """Context manager that installs the shim into the lazy_pool module."""

    def __init__(self, ctl: Controller):
        self.ctl = ctl
        self.saved = {}

    def __enter__(self):
        ctl = self.ctl
        self.saved = {"queue": LP.queue, "Collector": LP.Collector}
        LP.queue = _make_queue_module(ctl)
        orig = self.saved["Collector"]

        class TracedCollector(orig):  # type: ignore[misc, valid-type]

            def start(self_inner):  # pylint: disable=no-self-argument
                ctl.nworkers += 1
                ctl.register(self_inner, f"w{ctl.round}.{ctl.nworkers}")
                super().start()

            def run(self_inner):  # pylint: disable=no-self-argument
                tid = self_inner._verif_tid
                how = "exit"
                try:
                    super().run()
                except BaseException:  # pylint: disable=broad-except
                    how = "dead"
                    ctl.event("die", None, 0, tid)
                finally:
                    ctl.thread_done(tid, how)

        self.traced = TracedCollector
        LP.Collector = TracedCollector
        return self

    def __exit__(self, *exc):
        LP.queue = self.saved["queue"]
        LP.Collector = self.saved["Collector"]
        return False


def run_pool(ctl: Controller, *, T: int, N, fails=(), abandon_after=None, rounds: int = 1,
             jitter=None, result: dict | None = None, stall=None) -> dict:
    """Body of the consumer thread: uses the real LazyPool `rounds` times.
    Returns / fills `result` with per-round outcome and yielded items."""
    res = result if result is not None else {}
    res["rounds"] = []
    fails = set(fails)

    def func(x):
        ctl.gate("apply", None, x)
        ctl.event("apply", None, x)
        if jitter is not None:
            jitter(x)
        if x in fails:
            raise ItemFailure(x, "injected")
        return x

    pool = LP.LazyPool(T)
    res["pool"] = pool
    old_gens: list = []
    for r in range(1, rounds + 1):
        ctl.round = r
        ctl.nworkers = 0
        out = {"yielded": [], "outcome": "running", "max_ahead": 0}
        res["rounds"].append(out)
        src = Source(ctl, N)
        if r > 1:
            ctl.event("round", None, r)
        try:
            with pool:
                # the result iterator is kept referenced: when the caller abandons it, it is finalised only later, in
                # the middle of the NEXT use of the pool (`it = pool.imap_unordered(...)`, a few `next(it)`, and the
                # name is rebound much later) - finalising an abandoned iterator must not disturb the pool
                gen = pool.imap_unordered(func, src)
                for y in gen:
                    if old_gens and len(out["yielded"]) >= 1:
                        for g_ in old_gens:
                            g_.close()
                        old_gens.clear()
                    ctl.gate("yield", None, abstract(y))
                    if isinstance(y, Poison):
                        out["outcome"] = "poisoned"
                        raise Deadlock(None)
                    ctl.event("yield", None, abstract(y))
                    out["yielded"].append(abstract(y))
                    if stall is not None and len(out["yielded"]) == stall[0]:
                        time.sleep(stall[1])   # the caller is busy for a while (e.g. a training step)
                    out["max_ahead"] = max(out["max_ahead"], src.pulled - len(out["yielded"]))
                    if abandon_after is not None and len(out["yielded"]) >= abandon_after:
                        out["outcome"] = "left"
                        old_gens.append(gen)
                        break
                else:
                    out["outcome"] = "done"
            out["active_after"] = pool._active_threads  # pylint: disable=protected-access
        except ItemFailure as exc:
            out["outcome"] = "raised"
            out["raised_item"] = exc.x
        except Deadlock:
            break
        out["pulled"] = src.pulled
    return res
