------------------------------ MODULE ParallelMap ------------------------------
(* The Rust parallel map behind as_numpy_iterator_rust (rust/src/parallel_map.rs): min(T, N) worker        *)
(* threads, one pair of mpsc channels per worker, results taken in rotation.  Items are 1..N; the message   *)
(* None is 0.                                                                                              *)
EXTENDS Naturals, Sequences, FiniteSets

CONSTANTS T, N,
          PanicChoices, \* set of sets: which items make the mapped function panic (chosen in the initial state)
          DropChoices,  \* set of numbers: the consumer drops the iterator after that many results (never: N + 1)
          Fixed        \* TRUE: a receive error caused by a panicked worker is raised in the consumer (repaired);
                       \* FALSE: it is mapped to end-of-iteration (defect D5, parallel_map.rs:63)

Wn == IF T < N THEN T ELSE N          \* :118-123 no thread is created for nothing
W == 1..Wn
NONE == 0

VARIABLES nxt,      \* next item of the underlying iterator
          toW,      \* [W -> Seq(0..N)]  consumer -> worker channel
          fromW,    \* [W -> Seq(1..N)]  worker -> consumer channel
          wst,      \* [W -> {"recv","run","exited","panicked"}]
          witem, now, out,
          cst,      \* "idle" | "send" | "sendlast" | "ended" | "raised" | "dropping" | "joined"
          rxalive,  \* the consumer still holds the receiving ends (communication not cleared)
          Panics, DropAfter     \* fixed in the initial state
vars == <<nxt, toW, fromW, wst, witem, now, out, cst, rxalive, Panics, DropAfter>>

Init == /\ nxt = Wn + 1
        /\ toW = [w \in W |-> <<w>>]                    \* :138-139 each thread gets its first task
        /\ fromW = [w \in W |-> <<>>]
        /\ wst = [w \in W |-> "recv"] /\ witem = [w \in W |-> 0]
        /\ now = 1 /\ out = <<>> /\ rxalive = TRUE
        /\ Panics \in PanicChoices /\ DropAfter \in DropChoices
        /\ cst = IF DropAfter = 0 THEN "drop" ELSE "idle"

NextItem == IF nxt <= N THEN nxt ELSE NONE
Gone(w) == wst[w] \in {"exited", "panicked"}

(* ---- consumer: Iterator::next (:56-74) --------------------------------------------------- *)
\* receive.recv() on the channel of worker `now` (blocking)
CRecv ==
    /\ cst = "idle"
    /\ IF Wn = 0 THEN /\ cst' = "ended" /\ UNCHANGED <<fromW, out>>           \* :58-60
       ELSE \/ /\ fromW[now] # <<>>
               /\ out' = Append(out, Head(fromW[now]))
               /\ fromW' = [fromW EXCEPT ![now] = Tail(@)]
               /\ cst' = "send"
            \/ /\ fromW[now] = <<>> /\ Gone(now)                              \* recv error: sender dropped
               /\ cst' = IF Fixed /\ wst[now] = "panicked" THEN "raised" ELSE "sendlast"
               /\ UNCHANGED <<fromW, out>>
    /\ UNCHANGED <<nxt, toW, wst, witem, now, rxalive, Panics, DropAfter>>
\* send.send(self.iter.next()) ; now := now + 1 mod len
CSend ==
    /\ cst \in {"send", "sendlast"}
    /\ toW' = [toW EXCEPT ![now] = Append(@, NextItem)]
    /\ nxt' = IF nxt <= N THEN nxt + 1 ELSE nxt
    /\ now' = (now % Wn) + 1
    /\ cst' = IF cst = "sendlast" THEN "ended"
              ELSE IF Len(out) = DropAfter THEN "drop" ELSE "idle"
    /\ UNCHANGED <<fromW, wst, witem, out, rxalive, Panics, DropAfter>>
\* Drop (:77-99): None to every worker, receivers dropped, then join
CDrop ==
    /\ cst \in {"drop", "ended", "raised"}
    /\ toW' = [w \in W |-> Append(toW[w], NONE)]
    /\ rxalive' = FALSE /\ cst' = "dropping"
    /\ UNCHANGED <<nxt, fromW, wst, witem, now, out, Panics, DropAfter>>
CJoin ==
    /\ cst = "dropping" /\ \A w \in W : Gone(w)
    /\ cst' = "joined"
    /\ UNCHANGED <<nxt, toW, fromW, wst, witem, now, out, rxalive, Panics, DropAfter>>

(* ---- worker threads (:128-135) --------------------------------------------------------------- *)
WRecv(w) ==
    /\ wst[w] = "recv" /\ toW[w] # <<>>
    /\ toW' = [toW EXCEPT ![w] = Tail(@)]
    /\ IF Head(toW[w]) = NONE
       THEN wst' = [wst EXCEPT ![w] = "exited"] /\ witem' = witem
       ELSE wst' = [wst EXCEPT ![w] = "run"] /\ witem' = [witem EXCEPT ![w] = Head(toW[w])]
    /\ UNCHANGED <<nxt, fromW, now, out, cst, rxalive, Panics, DropAfter>>
WRun(w) ==
    /\ wst[w] = "run"
    /\ IF witem[w] \in Panics
       THEN wst' = [wst EXCEPT ![w] = "panicked"] /\ fromW' = fromW
       ELSE IF rxalive THEN wst' = [wst EXCEPT ![w] = "recv"] /\ fromW' = [fromW EXCEPT ![w] = Append(@, witem[w])]
            ELSE wst' = [wst EXCEPT ![w] = "exited"] /\ fromW' = fromW        \* send error: return
    /\ UNCHANGED <<nxt, toW, witem, now, out, cst, rxalive, Panics, DropAfter>>

Consumer == CRecv \/ CSend \/ CDrop \/ CJoin
Worker(w) == WRecv(w) \/ WRun(w)
Finished == cst = "joined" /\ UNCHANGED vars
Next == Consumer \/ (\E w \in W : Worker(w)) \/ Finished
Spec == Init /\ [][Next]_vars
FairSpec == Spec /\ WF_vars(Consumer) /\ \A w \in W : WF_vars(Worker(w))

(* ---- properties -------------------------------------------------------------------------- *)
\* results come back in input order (C15, C03)
Order == \A i \in 1..Len(out) : out[i] = i
\* a pass that ends normally has delivered everything (C02; C07 when a worker panicked)
NoSilentTruncation == (cst \in {"ended"}) => Len(out) = N
\* at most one unfinished task per worker: read-ahead <= number of threads (C14)
Outstanding(w) == Cardinality({i \in 1..Len(toW[w]) : toW[w][i] # NONE}) + (IF wst[w] = "run" THEN 1 ELSE 0)
                  + Len(fromW[w])
OneOutstanding == \A w \in W : Outstanding(w) <= 1
ReadAhead == (nxt - 1) - Len(out) <= T
\* dropping - at the end or early - always lets every thread terminate (no deadlock)
DropTerminates == <>(cst = "joined")
PanicSurfaces == (Panics # {} /\ DropAfter > N) => <>(cst = "raised" \/ cst = "joined") /\ [](cst # "ended")
===============================================================================
