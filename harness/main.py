"""./check <ID> [--tier quick|thorough] [--replay <file>]"""
from __future__ import annotations

import argparse
import importlib
import json
import os
import sys
import traceback

from . import core, tlc


def main() -> int:
    ap = argparse.ArgumentParser()
    ap.add_argument("prop")
    ap.add_argument("--tier", default=os.environ.get("VERIF_TIER", "quick"), choices=["quick", "thorough"])
    ap.add_argument("--replay", default=None)
    args = ap.parse_args()
    prop = args.prop.upper()
    seed = int(os.environ.get("VERIF_SEED", "0") or 0)
    from . import rustext
    if rustext.SO.exists():
        rustext.preload()
    try:
        mod = importlib.import_module(f"harness.props.{prop.lower()}")
    except ModuleNotFoundError as exc:
        core.die_machinery(f"no check for {prop}: {exc}")
    ctx = core.Ctx(prop, args.tier, seed, getattr(mod, "LEVEL", "model_checking"), replaying=bool(args.replay))
    try:
        if args.replay:
            with open(args.replay, encoding="utf-8") as f:
                body = json.load(f)
            mod.replay(ctx, body)
        else:
            mod.run(ctx)
        return ctx.finish()
    except (core.MachineryError, tlc.TLCError) as exc:
        ctx.abort()
        core.die_machinery(str(exc))
    except Exception:  # pylint: disable=broad-except
        ctx.abort()
        traceback.print_exc()
        core.die_machinery("unexpected exception in the harness")
    return 2


if __name__ == "__main__":
    sys.exit(main())
