"""Run context shared by all checks: tier/seed, scratch directory, violation reporting with known
findings, evidence file writing, TLC result accumulation."""
from __future__ import annotations

import hashlib
import json
import os
import shutil
import sys
import tempfile
import time
from pathlib import Path

VERIF = Path(__file__).resolve().parent.parent
REPO = Path(os.environ.get("VERIF_REPO", "/repo"))
EVIDENCE = VERIF / "evidence"
REPLAYS = EVIDENCE / "replays"
KNOWN = VERIF / "known_findings.json"


class MachineryError(RuntimeError):
    """Something in the verification machinery failed (exit 2); never a property verdict."""


def _jsonable(o):
    if isinstance(o, (set, frozenset)):
        return sorted((_jsonable(x) for x in o), key=repr)
    if isinstance(o, tuple):
        return [_jsonable(x) for x in o]
    if isinstance(o, dict):
        return {str(k): _jsonable(v) for k, v in o.items()}
    if isinstance(o, list):
        return [_jsonable(x) for x in o]
    if isinstance(o, Path):
        return str(o)
    if isinstance(o, bytes):
        return o.hex()
    try:
        import numpy as np
        if isinstance(o, np.generic):
            return o.item()
        if isinstance(o, np.ndarray):
            return o.tolist()
    except ImportError:  # pragma: no cover
        pass
    return o


class Ctx:

    def __init__(self, prop: str, tier: str, seed: int, level: str, replaying: bool = False):
        self.prop = prop
        self.tier = tier
        self.seed = seed
        self.level = level
        self.replaying = replaying
        self.t0 = time.time()
        self.tmp = Path(tempfile.mkdtemp(prefix=f"verif_{prop}_"))
        self.violations: list[dict] = []
        self.known_hits: list[dict] = []
        self.drift: list[dict] = []
        self.cov: dict = {"samples": []}
        self.assumptions: list[str] = []
        self.tlc_runs: list[dict] = []
        self.action_cov: dict = {}
        self.notes: list[str] = []
        self._known = self._load_known()
        self._printed_known: set = set()
        self._seen_sigs: dict = {}

    # -------------------------------------------------------------- helpers
    @property
    def quick(self) -> bool:
        return self.tier == "quick"

    def pick(self, quick, thorough):
        return quick if self.quick else thorough

    def log(self, msg: str) -> None:
        print(f"[{self.prop} {time.time() - self.t0:6.1f}s] {msg}", flush=True)

    def sample(self, s, limit: int = 6) -> None:
        if len(self.cov["samples"]) < limit:
            self.cov["samples"].append(_jsonable(s))

    def count(self, key: str, n: int = 1) -> None:
        self.cov[key] = self.cov.get(key, 0) + n

    def _load_known(self) -> list[dict]:
        if not KNOWN.exists():
            return []
        data = json.loads(KNOWN.read_text())
        return [f for f in data.get("findings", []) if f.get("status") == "known"]

    # -------------------------------------------------------------- TLC bookkeeping
    def add_tlc(self, name: str, res, expect_zero=()) -> None:
        """Record a TLC run (model level). A model-level violation is a machinery error unless the caller
        handles it (the caller asks for res.ok itself before calling this when a counterexample is wanted)."""
        self.tlc_runs.append({"config": name, "states": res.states, "distinct": res.distinct, "depth": res.depth,
                              "wall_s": round(res.wall_s, 2), "violated": res.violated})
        self.cov["states"] = self.cov.get("states", 0) + res.distinct
        self.cov["transitions"] = self.cov.get("transitions", 0) + res.states
        for a, (d, t) in res.coverage.items():
            cur = self.action_cov.get(a, 0)
            self.action_cov[a] = cur + t

    def check_vacuity(self, ignore=()) -> None:
        zero = sorted(a for a, t in self.action_cov.items() if t == 0 and a not in ignore)
        if zero:
            raise MachineryError(f"vacuous model run: actions never taken: {zero}")

    # -------------------------------------------------------------- verdicts
    def violation(self, signature: str, what: str, witness: dict) -> None:
        """Report a witness executed on the real code that contradicts the property.
        `signature` identifies the class of witness for known-finding matching."""
        for f in self._known:
            if f["property"] == self.prop and _sig_match(f["signature"], signature):
                self.known_hits.append({"signature": signature, "finding": f["id"], "what": what})
                if f["id"] not in self._printed_known:
                    self._printed_known.add(f["id"])
                    print(f"KNOWN-FINDING: property={self.prop} {f['id']}: {f['what']}", flush=True)
                return
        if signature in self._seen_sigs:
            self._seen_sigs[signature] += 1
            return
        self._seen_sigs[signature] = 1
        REPLAYS.mkdir(parents=True, exist_ok=True)
        body = {"property": self.prop, "signature": signature, "what": what, "seed": self.seed,
                "witness": _jsonable(witness)}
        blob = json.dumps(body, sort_keys=True, indent=1)
        h = hashlib.sha1(blob.encode()).hexdigest()[:12]
        path = REPLAYS / f"{self.prop}-{h}.json"
        path.write_text(blob)
        self.violations.append({"signature": signature, "what": what, "replay": str(path)})
        print(f"VIOLATION property={self.prop} replay={path}", flush=True)
        print(f"  {what}", flush=True)

    def add_drift(self, what: str, detail=None) -> None:
        self.drift.append({"what": what, "detail": _jsonable(detail)})
        if len(self.drift) <= 5:
            self.log(f"DRIFT (conformance mismatch, all property predicates held): {what}")

    # -------------------------------------------------------------- end of run
    def finish(self) -> int:
        cov = dict(self.cov)
        cov["drift"] = len(self.drift)
        if self.drift:
            cov["drift_samples"] = self.drift[:5]
        if self.tlc_runs:
            cov["tlc_runs"] = self.tlc_runs
            cov["action_coverage"] = self.action_cov
        if self.known_hits:
            cov["known_findings_hit"] = self.known_hits[:20]
            cov["known_findings_hit_count"] = len(self.known_hits)
        if self.violations:
            cov["violation_signatures"] = self._seen_sigs
        if self.notes:
            cov["notes"] = self.notes
        if not cov["samples"]:
            cov["samples"] = ["(no sample recorded)"]
        ev = {
            "property_id": self.prop,
            "tier": self.tier,
            "seed": self.seed,
            "level": self.level,
            "coverage": _jsonable(cov),
            "assumptions": self.assumptions,
            "wall_s": round(time.time() - self.t0, 2),
            "violations": len(self.violations),
        }
        if not self.replaying:
            EVIDENCE.mkdir(exist_ok=True)
            (EVIDENCE / f"{self.prop}.json").write_text(json.dumps(ev, indent=1, sort_keys=True) + "\n")
        shutil.rmtree(self.tmp, ignore_errors=True)
        if self.violations:
            return 1
        print(f"OK property={self.prop} tier={self.tier} wall={ev['wall_s']}s drift={len(self.drift)} "
              f"known_findings={len(self._printed_known)}", flush=True)
        return 0

    def abort(self) -> None:
        shutil.rmtree(self.tmp, ignore_errors=True)


def _sig_match(pattern: str, sig: str) -> bool:
    """Known-finding signature match: '|'-separated key=value fields; pattern value '*' matches anything;
    every field of the pattern must be present in the signature with the same value."""
    want = dict(f.split("=", 1) for f in pattern.split("|") if "=" in f)
    have = dict(f.split("=", 1) for f in sig.split("|") if "=" in f)
    for k, v in want.items():
        if k not in have:
            return False
        if v != "*" and have[k] != v:
            return False
    return True


def die_machinery(msg: str) -> "NoReturn":  # type: ignore[name-defined]
    print(f"MACHINERY-FAILURE: {msg}", file=sys.stderr, flush=True)
    sys.exit(2)
