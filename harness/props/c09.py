"""C09 - parallel writers do not interfere.

Model: Dataset.tla MultiBegin(K) / per-worker Write / ExitFiller / MultiEnd / MultiDone with Atomic = FALSE: TLC
explores every interleaving of the K workers' file-system effects; C09_NoSharedPath, exact metadata, a passing
check, append-only and per-writer order are invariants. Binding: real write_multiprocessing(single_process=False)
runs under `strace -f`: per path the set of writing processes, parent effects only after all workers, results in
argument order, the final state judged by TLC and compared with a single-process run of the same writers; the
recorded effect sequences are validated against Dataset_Trace.tla."""
from __future__ import annotations

import concurrent.futures as cf
import json
import random

from .. import dshist as H, dsreal
from ..core import Ctx, MachineryError
from . import c06

LEVEL = "model_checking"
FS = frozenset
INV = ["C09_NoSharedPath", "NoSessionFails", "C04_Exact", "C05_Pass", "C08_AppendOnly", "C03_WriteOrder",
       "C06_CrashSafe"]
FINAL = ["C04", "C05", "C08", "C03", "C06", "R06", "R08", "R03"]


def _multi_history(rng: random.Random, k: int, first_session: bool):
    labels = [("Create", [])]
    if not first_session:
        labels += [("BeginFiller", [[]]), ("Write", [0, "train", "None", "good"]), ("ExitFiller", [0]),
                   ("SessionDone", [])]
    labels.append(("MultiBegin", [k]))
    plans = {}
    for p in range(1, k + 1):
        n = rng.choice((0, 1, 2, 3, 5))
        plans[p] = [(p, rng.choice(("train", "train", "test", "holdout")), rng.choice(("None", "None", "A", "B")),
                     "good" if rng.random() < 0.9 else "bad") for _ in range(n)]
    # interleave the plans arbitrarily (ids follow this order)
    order = [p for p, pl in plans.items() for _ in pl]
    rng.shuffle(order)
    pos = {p: 0 for p in plans}
    for p in order:
        w = plans[p][pos[p]]
        pos[p] += 1
        labels.append(("Write", list(w)))
    for p in range(1, k + 1):
        labels.append(("ExitFiller", [p]))
    if rng.random() < 0.3:
        # the call fails (a writer function raises after its filler was closed) and is retried with the same plans
        labels.append(("MultiAbort", [rng.randint(1, k)]))
        labels.append(("MultiBegin", [k]))
        for p, pl in plans.items():
            for w in pl:
                labels.append(("Write", list(w)))
        for p in range(1, k + 1):
            labels.append(("ExitFiller", [p]))
    labels += [("MultiEnd", []), ("MultiDone", [])]
    if rng.random() < 0.4:  # a second multi-writer call on top
        labels.append(("MultiBegin", [2]))
        labels += [("Write", [1, "train", "None", "good"]), ("Write", [2, "test", "None", "good"]),
                   ("ExitFiller", [1]), ("ExitFiller", [2]), ("MultiEnd", []), ("MultiDone", [])]
    return labels


def _aborted_names(labels) -> set:
    used, cur, out = 0, [], set()
    for name, args in labels:
        if name == "MultiBegin":
            cur = [f"u{i}" for i in range(used + 1, used + args[0] + 1)]
            used += args[0]
        elif name == "MultiAbort":
            out |= set(cur)
    return out


def run(ctx: Ctx) -> None:
    q = ctx.quick
    c = H.consts
    ctx.assumptions += [
        "worker processes are scheduled by the OS; relative speeds are sampled (uneven loads), every interleaving "
        "of their file-system effects is enumerated only in the model (K<=3)",
        "equivalence with sequential execution is judged on the projected final state (canonical shard names)",
    ]
    mc = [("multi_k2_fs", c(Splits=FS({"train"}), Atomic=False, FillerDirs=FS({()}), MaxSessions=1, MaxWrites=2,
                            MaxK=2)),
          ("multi_k2_after_root_session", c(Splits=FS({"train"}), Atomic=False, FillerDirs=FS({()}), MaxSessions=2,
                                            MaxWrites=1, MaxK=2)),
          ("multi_k3_atomic_2splits", c(Atomic=True, FillerDirs=FS({()}), MaxSessions=1, MaxWrites=2, MaxK=3)),
          ("multi_k3_fs", c(Splits=FS({"train"}), Atomic=False, FillerDirs=FS({()}), MaxSessions=1, MaxWrites=1,
                            MaxK=3)),
          ("multi_k2_fs_failed_call_and_retry", c(Splits=FS({"train"}), Atomic=False, FillerDirs=FS({()}),
                                                  MaxSessions=2, MaxWrites=1, MaxK=2, MaxAborts=1)),
          ("multi_k2_fs_2splits", c(Atomic=False, FillerDirs=FS({()}), MaxSessions=1, MaxWrites=2, MaxK=2))]
    if not q:
        mc += [("multi_k3_fs_2writes", c(Splits=FS({"train"}), Atomic=False, FillerDirs=FS({()}), MaxSessions=1,
                                         MaxWrites=2, MaxK=3))]
    with cf.ThreadPoolExecutor(max_workers=3) as ex:
        futs = [(n, ex.submit(H.model_check, ctx, n, cc, invariants=INV, workers=5)) for n, cc in mc]
        for n, f in futs:
            res = f.result()
            ctx.add_tlc(n, res)
            if not res.ok:
                raise MachineryError(f"Dataset.tla ({n}) violates {res.violated}\n" +
                                     "\n".join(l.split(" line")[0] for l, _ in res.error_trace))
            ctx.log(f"TLC {n}: {res.distinct} distinct states, depth {res.depth}, {res.wall_s:.0f}s - all "
                    f"interleavings of the workers' effects satisfy the invariants")

    rng = random.Random(ctx.seed + 9)
    targets = [("fb", "", ("sha256",)), ("npz", "", ("sha256",)), ("tfrec", "", ("sha256",)),
               ("fb", "LZ4", ("md5", "xxh64")), ("tfrec", "GZIP", ("sha1",)), ("npz", "ZIP", ())]
    jobs = []
    for i in range(12 if q else 120):
        fmt, comp, hashes = targets[i % len(targets)]
        k = (1, 2, 3, 4, 2, 3)[i % 6]
        jobs.append({"labels": _multi_history(rng, k, first_session=(i % 3 != 0)), "fmt": fmt, "compression": comp,
                     "hashes": list(hashes), "eps": 2, "single_process": False, "final_checks": FINAL})
    try:
        outs, driver = record_and_judge(ctx, jobs, groups=3 if q else 8)
        # the same writers, one after another in a single process
        seq_tasks = [dict(j, single_process=True, expected={}, create_again=False) for j in jobs]
        seq = H.run_histories(seq_tasks)
        finals, owner = [], []
        n_equiv = 0
        for gj, job in enumerate(jobs):
            o = outs[gj]
            if o["error"]:
                raise MachineryError(o["error"])
            tag = f"{job['fmt']}/{job['compression']}"
            shared = {p: pids for p, pids in o["paths_by_pid"].items()
                      if len([x for x in pids if x != o.get("main_pid")]) > 1}
            if shared:
                ctx.violation(f"C09|kind=shared-path|fmt={job['fmt']}", f"{tag}: files written by more than one "
                              f"process: {dict(list(shared.items())[:3])}", {"job": job, "shared": shared})
            if o.get("parent_early"):
                ctx.violation(f"C09|kind=parent-early|fmt={job['fmt']}", f"{tag}: the parent wrote "
                              f"{o['parent_early'][:3]} while workers were still running", {"job": job})
            for kind, what in driver[gj].get("problems", []):
                if kind in ("multi-results-order", "good-write-rejected", "bad-shape-accepted"):
                    ctx.violation(f"C09|kind={kind}|fmt={job['fmt']}", f"{tag}: {what}", {"job": job})
            if driver[gj].get("failed"):
                ctx.violation(f"C09|kind=call-failed|fmt={job['fmt']}", f"{tag}: write_multiprocessing raised: "
                              f"{driver[gj]['failed']}", {"job": job})
                continue
            for kind, what, point in o["problems"]:
                ctx.violation(f"C09|kind={kind}|fmt={job['fmt']}", f"{tag}: {what}", {"job": job, "point": point})
            if "final" in o:
                finals.append(o["final"])
                owner.append(gj)
            s = seq[gj]
            if s["error"]:
                raise MachineryError(s["error"])
            if s["states"] and "final" in o:
                a = {tuple(f["p"]): f["c"] for f in o["final"]["files"]}
                b = {tuple(f["p"]): f["c"] for f in s["states"][-1]["files"]}
                # files left behind by a failed call are unlisted leftovers (how many writers of the failed call ran
                # differs between a process pool and a plain loop); everything else must be identical
                gone = _aborted_names(job["labels"])
                a = {p: c for p, c in a.items() if not gone & set(p)}
                b = {p: c for p, c in b.items() if not gone & set(p)}
                d = dsreal.diff_files(b, a)
                if d:
                    ctx.violation(f"C09|kind=not-sequential|fmt={job['fmt']}", f"{tag}: the dataset differs from the "
                                  f"one written by the same writers one after another: {d[0][:300]}",
                                  {"job": job, "diff": d})
                else:
                    n_equiv += 1
        bad = []
        for hashing in (True, False):
            idxs = [k for k in range(len(finals)) if bool(jobs[owner[k]]["hashes"]) == hashing]
            if idxs:
                bad += [(idxs[j], pred) for j, pred in
                        H.evaluate(ctx, [finals[k] for k in idxs], f"final{int(hashing)}", hashing=hashing)]
        for j, pred in bad:
            job = jobs[owner[j]]
            ctx.violation(f"C09|kind=predicate-{pred}|fmt={job['fmt']}", f"{job['fmt']}/{job['compression']}: "
                          f"predicate {pred} is false on the final state of a real multi-process run",
                          {"job": job, "state": finals[j]})
        ctx.cov["multi_writer_calls_recorded"] = len(jobs)
        ctx.cov["writer_processes"] = sum(j["labels"][[n for n, _ in j["labels"]].index("MultiBegin")][1][0]
                                          for j in jobs)
        ctx.cov["equal_to_sequential_run"] = n_equiv
        ctx.cov["final_states_judged_by_tlc"] = len(finals)
        ctx.log(f"{len(jobs)} real multi-process calls: {n_equiv} equal to the sequential run, "
                f"{len(finals)} final states judged by TLC ({len(bad)} predicate failures)")
        ctx.sample({"kind": "multi-writer history (real processes)", "fmt": jobs[0]["fmt"],
                    "history": [f"{n}{tuple(a)}" for n, a in jobs[0]["labels"]],
                    "paths_by_pid": dict(list(outs[0]["paths_by_pid"].items())[:6])})
        c06.validate_traces(ctx, jobs, outs)
    finally:
        H.shutdown_pool()


def record_and_judge(ctx: Ctx, jobs, groups):
    outs, driver = c06.record_and_judge(ctx, jobs, torn=0, reader_every=1000, tag="m", groups=groups)
    return outs, driver


def replay(ctx: Ctx, body: dict) -> None:
    raise MachineryError("replay: run ./check C09 (the witness needs real worker processes; the job is in the file)")
