#!/bin/sh
# usage: tools/run_some.sh <tier> <id>...   (sequential; prints exit codes and the last lines of each log)
cd "$(dirname "$0")/.."
TIER="$1"; shift
[ -x tools/build_rust.sh ] && tools/build_rust.sh > /dev/null 2>&1
for id in "$@"; do
  start=$(date +%s)
  ./check $id --tier $TIER > run_$id.log 2>&1
  rc=$?
  echo "$id tier=$TIER exit=$rc wall=$(( $(date +%s) - start ))s known=$(grep -c '^KNOWN-FINDING' run_$id.log) violations=$(grep -c '^VIOLATION' run_$id.log)"
  grep "^\[$id\|^VIOLATION\|^MACHINERY\|^OK" run_$id.log | tail -6 | cut -c1-300
done
