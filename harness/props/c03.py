"""C03 - unshuffled iteration is deterministic and preserves write order.

Write side: Dataset.tla C03_WriteOrder (closing order appended to the list, children depth-first, merge keeps the
insertion order of the updates, multi-writer in argument order) model checked and judged on projected real states
(C03 / R03). Read side: BatchMap.tla OrderPreserving for every completion order of the workers (imposed on the
real unshuffled concurrent path through gates around process_and_list), ParallelMap.tla Order (C15), Chain; end
to end every interface with shuffle=0 must yield the same sequence on repeated passes, on the writing handle and
after reopening, for file_parallelism in {1,2,>shards}, containing every session's examples in write order."""
import random

from . import _dsfamily as F, _readfamily as R
from .. import dshist as H, pipes, tlc
from ..core import MachineryError

LEVEL = "model_checking"


def run(ctx):
    ctx.assumptions += ["order across different sessions is not demanded (newer child lists are listed before older "
                        "ones); worker timing of tf.data / ThreadPoolExecutor is perturbed, completion orders of the "
                        "ordered executor map and of the Rust map are enumerated"]
    # ---- write side (Dataset.tla)
    try:
        mc, sanity, sims = F.plan(ctx, "C03")
        # splits interleaved arbitrarily inside one session
        sims = [(n, dict(c, MaxWrites=4) if n.startswith("sim_tree") else c, num, depth, tg, eps)
                for n, c, num, depth, tg, eps in sims]
        # (the first two tree models, and the one-session model with shard-level metadata changes)
        F.run_family(ctx, mc=mc[:2] + [m for m in mc[2:] if m[0].startswith("shard_1session")], sanity=[], sims=sims,
                     preds={"C03", "R03"}, problem_kinds=set())
    finally:
        H.shutdown_pool()
    # ---- BatchMap: every completion order
    R.stage_batchmap_model(ctx)
    rng = random.Random(ctx.seed + 33)
    n_imposed = n_exact = 0
    obs = []
    for lens, P in (((2, 1, 2), 2), ((1, 2, 1, 1), 3), ((2, 2, 1, 1, 2), 2)) if ctx.quick else \
            (((2, 1, 2), 2), ((1, 2, 1, 1), 3), ((2, 2, 1, 1, 2), 2), ((1, 1, 1, 1, 1, 1), 4), ((3, 1, 2), 1)):
        res, dot = R._mc(ctx, "BatchMap", f"replay_L{len(lens)}P{P}", {"Lens": lens, "P": P, "Fails": frozenset(),
                                                                      "OneBatch": False},
                         ["OrderPreserving", "Complete", "ReadAhead"], dump=True)
        g = tlc.load_graph(dot)
        paths = tlc.edge_cover_paths(g)
        if len(paths) > (12 if ctx.quick else 150):
            paths = rng.sample(paths, 12 if ctx.quick else 150)
        try:
            outs = pipes.replay_batchmap([(p, g.nodes, R._init_of(g, p)) for p in paths], lens=lens, P=P)
        except pipes.LayoutError as exc:
            # (the stage builds short shards through metadata changes; a library whose roll-over rule differs cannot
            # be driven along these behaviours - weaker evidence, recorded as drift, never an alarm and never a reason
            # to lose what the other stages found)
            ctx.add_drift(f"BatchMap lens={lens} P={P}: stage skipped, {exc}")
            continue
        for o in outs:
            n_imposed += 1
            if o["mismatch"]:
                ctx.add_drift(f"BatchMap lens={lens} P={P}: {o['mismatch'][0]}")
            else:
                n_exact += 1
            obs.append({"want": o["want"], "got": o["real"], "mode": "seq", "sessions": [],
                        "what": f"unshuffled concurrent path, completion order imposed, lens={lens} P={P}"})
    ctx.cov["completion_orders_imposed_on_batch_map"] = n_imposed
    ctx.cov["completion_orders_followed_exactly"] = n_exact
    ctx.count("traces_validated_against_impl", n_exact)
    R.judge_obs(ctx, obs, "C03")
    ctx.log(f"{n_imposed} completion orders of the ordered executor map imposed on the real concurrent path, "
            f"{n_exact} followed exactly")
    # ---- end to end
    configs = []
    for iface in ("numpy", "concurrent", "async", "rust", "tfdata"):
        for fp in (1, 2, "many"):
            if iface == "numpy" and fp != 1:
                continue
            for handle in ("reopened", "writer", "reopened"):
                configs.append({"iface": iface, "shuffle": 0, "fp": fp, "repeat": False, "handle": handle})
    # a selection option must not disturb the order: the shards kept by the per-metadata limit come in written order
    configs += [{"iface": i, "shuffle": 0, "fp": 2, "repeat": False, "limit": lim}
                for i in ("numpy", "concurrent", "tfdata") for lim in (1, 2)]
    # "the same sequence on every pass" also for the passes of ONE repeating stream: three passes in a row must be
    # the one-pass sequence three times (parallelism below, equal to and above the number of shards)
    configs += [{"iface": i, "shuffle": 0, "fp": fp, "repeat": True}
                for i in ("numpy", "concurrent", "async", "rust", "tfdata") for fp in (1, 2, "many", "many+2")
                if not (i == "numpy" and fp != 1)]
    R.run_grid(ctx, "C03", "seq", configs)


def replay(ctx, body):
    w = body["witness"]
    if "task" in w and "labels" in w["task"] and "expected" not in w["task"]:
        F.replay_prop(ctx, body, "C03")
    elif "observation" in w:
        R.judge_obs(ctx, [w["observation"]], "C03")
    else:
        raise MachineryError("replay: re-run ./check C03")
