-------------------------- MODULE ShuffleBuffer_Trace --------------------------
(* Validates pull / yield logs of the real shuffle_buffer (real pseudo-random generator) against           *)
(* ShuffleBuffer.tla: the index chosen at each yield is inferred from the element yielded.                 *)
EXTENDS ShuffleBuffer, Json, IOUtils, TLC, TLCExt
VARIABLES tid, l
tvars == <<vars, tid, l>>
TraceLogs == JsonDeserialize(IOEnv.TRACE_FILE)
Ev == TraceLogs[tid][l]
More == l <= Len(TraceLogs[tid])
TInit == Init /\ tid \in 1..Len(TraceLogs) /\ l = 1 /\ TLCSet(tid, 1)
TPull == Ev.op = "pull" /\ ((FillPull /\ buf'[Len(buf')] = Ev.x) \/ (LoopPull /\ pc' = "yield" /\ newel' = Ev.x))
TYield == Ev.op = "yield" /\ \E i \in 1..Len(buf) : buf[i] = Ev.x /\ (LoopYield(i) \/ Flush(i))
\* unlogged internal steps: the fill loop ends, the source signals its end, the flush completes
TSilent == (FillEnd \/ (LoopPull /\ pc' = "flush") \/ Done) /\ UNCHANGED <<tid, l>>
TNext == (More /\ (TPull \/ TYield) /\ l' = l + 1 /\ UNCHANGED tid) \/ TSilent
TSpec == TInit /\ [][TNext]_tvars
Reach == TLCSet(tid, IF TLCGet(tid) < l THEN l ELSE TLCGet(tid))
Ended == (l > Len(TraceLogs[tid])) => TRUE
Report == \A t \in 1..Len(TraceLogs) : PrintT(<<"REACHED", t, TLCGet(t), Len(TraceLogs[t]) + 1>>)
===============================================================================
