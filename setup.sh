#!/bin/sh
# Offline setup: syntax/semantic check of every specification; build of the Rust harness (when present).
set -e
DIR="$(cd "$(dirname "$0")" && pwd)"
cd "$DIR/spec"
for f in *.tla; do
  java -cp /opt/veriftools/tla/tla2tools.jar:/opt/veriftools/tla/CommunityModules-deps.jar tla2sany.SANY "$f" > /tmp/sany.$$ 2>&1 || { cat /tmp/sany.$$; rm -f /tmp/sany.$$; exit 1; }
  if grep -q "Semantic errors\|Parse Error\|\*\*\* Errors" /tmp/sany.$$; then cat /tmp/sany.$$; rm -f /tmp/sany.$$; exit 1; fi
done
rm -f /tmp/sany.$$
cd "$DIR"
if [ -x "$DIR/tools/build_rust.sh" ]; then "$DIR/tools/build_rust.sh"; fi
/venv/bin/python -c "import sedpack, hypothesis" 
echo "setup ok"
