"""History level binding of Dataset.tla: TLC behaviours -> real datasets (replay), projected states ->
Dataset_Eval (property predicates evaluated by TLC), specification states vs projected states (drift)."""
from __future__ import annotations

import concurrent.futures as cf
import json
import multiprocessing as mp
import os
import shutil
import tempfile
import traceback
from pathlib import Path

from . import tlc, tlaval
from .core import Ctx, MachineryError

ALL_CHECKS = ["C04", "C05", "C08", "C03", "C10", "C11", "C18", "C06", "R08", "R03"]

BASE = dict(Splits=frozenset({"train", "test"}), FillerDirs=frozenset({(), ("s",), ("s", "t")}),
            WriterNames=("u1", "u2", "u3", "u4", "u5", "u6"), EPS=2, MDs=frozenset({"None"}),
            Kinds=frozenset({"good"}), Streaming=False, Hashing=True, Atomic=True, MaxSessions=2, MaxWrites=3,
            MaxK=2, Dedupe=True, EmptyRoll=False, MdByRef=False, UseRef=False, Protocol="good", NoMkdir=False, CheckChildren=True, MaxMoves=0, MaxCrashes=0, MaxAborts=0, CrashOn=False, ReaderOn=False)

INVARIANTS = ["TypeOK", "NoSessionFails", "C04_Exact", "C05_Pass", "C08_AppendOnly", "C03_WriteOrder", "C10_Size",
              "C11_Label", "C18_AllOrNothing", "C06_CrashSafe", "C09_NoSharedPath"]


def consts(**kw) -> dict:
    c = dict(BASE)
    c.update(kw)
    return c


def model_check(ctx: Ctx, name: str, c: dict, *, invariants=INVARIANTS, workers=8, timeout=1500, constraints=()):
    d = ctx.tmp / f"mc_{name}"
    mod, cfg = tlc.make_model(d, "Dataset", c, spec="Spec", invariants=list(invariants),
                              constraints=list(constraints))
    return tlc.run(mod, cfg, workers=workers, workdir=d, coverage=False, timeout=timeout)


def simulate(ctx: Ctx, name: str, c: dict, *, num: int, depth: int, seed: int):
    """-> list of behaviours, each [(action name, args tuple, state dict)] (initial state excluded)."""
    d = ctx.tmp / f"sim_{name}"
    mod, cfg = tlc.make_model(d, "Dataset", c, spec="Spec", invariants=["NoSessionFails"])
    out = d / "traces"
    out.mkdir(exist_ok=True)
    res = tlc.run(mod, cfg, workers=1, workdir=d, coverage=False, simulate=f"file={out}/tr,num={num}", depth=depth,
                  seed=seed, timeout=1500)
    if not res.ok:
        raise MachineryError(f"simulation of {name} violated {res.violated}\n{res.out[-2000:]}")
    behaviours = []
    for f in sorted(out.iterdir()):
        steps = tlc.load_sim_trace(f)
        beh = []
        for label, st in steps[1:]:
            nm, args = tlc.label_name(label)
            vals = tlaval.parse_value("<<" + args + ">>") if args else ()
            beh.append((nm, vals, st))
        if beh:
            behaviours.append(beh)
    shutil.rmtree(out, ignore_errors=True)
    return res, behaviours


def behaviour_to_task(beh, **opts) -> dict:
    """Keep labels and, for quiescent specification states, the canonical expected files / mem."""
    from . import dsreal
    labels, expected = [], {}
    for i, (nm, args, st) in enumerate(beh):
        labels.append((nm, tlaval.plain(args)))
        quiescent = (st["ctl"]["mode"] == "idle" and not st["failed"] and not st["crashed"]
                     and all(not pr["todo"] for pr in st["procs"].values()) and ("info",) in st["files"])
        if quiescent and nm in ("Create", "Open", "SessionDone", "MultiDone", "MultiAbort"):
            files = dsreal.spec_files(st["files"])
            mem = dsreal.spec_table(st["mem"]) if "none" not in st["mem"] else {"none": True}
            cfiles, (cmem,), _ = dsreal.canonical(files, extra=(mem,))
            expected[i] = {"files": dsreal.files_to_json(cfiles), "mem": cmem}
    task = {"labels": labels, "expected": expected}
    task.update(opts)
    return task


# ------------------------------------------------------------------------------------------------
# worker side


def _snapshot_bytes(root: Path) -> dict:
    out = {}
    for dp, _dn, fns in os.walk(root):
        for fn in fns:
            full = Path(dp) / fn
            out[str(full.relative_to(root))] = full.read_bytes()
    return out


def run_history(task: dict) -> dict:
    """Executed in a worker process: replays one behaviour on a real dataset."""
    from . import dsreal
    out = {"states": [], "drift": [], "problems": [], "steps": 0, "error": None, "labels": task["labels"],
           "fmt": task["fmt"], "compression": task.get("compression", ""), "hashes": task.get("hashes", ["sha256"]),
           "eps": task.get("eps", 2), "single_process": task.get("single_process", True)}
    tmp = Path(tempfile.mkdtemp(prefix="verif_hist_"))
    root = tmp / "ds"
    rp = None
    try:
        rp = dsreal.Replayer(root, task["fmt"], task.get("compression", ""), eps=task.get("eps", 2),
                             hashes=tuple(task.get("hashes", ("sha256",))),
                             single_process=task.get("single_process", True))
        for i, (nm, args) in enumerate(task["labels"]):
            args = tuple(tuple(a) if isinstance(a, list) else a for a in args)
            try:
                q = rp.step(nm, args)
            except dsreal.SessionFailed as exc:
                out["problems"].append(("session-failed", f"step {i} {nm}{args}: {exc}"))
                break
            out["steps"] = i + 1
            if not q:
                continue
            st, cfiles, cmem = rp.observe(task.get("checks", ALL_CHECKS))
            st["step"] = i
            out["states"].append(st)
            exp = task["expected"].get(i) or task["expected"].get(str(i))
            if exp is not None:
                efiles = {tuple(e["p"]): e["c"] for e in exp["files"]}
                d = dsreal.diff_files(efiles, cfiles)
                if d:
                    out["drift"].append(f"step {i} {nm}: " + "; ".join(d))
                elif dsreal._norm(exp["mem"]) != dsreal._norm(cmem):  # pylint: disable=protected-access
                    out["drift"].append(f"step {i} {nm}: handle table differs: spec {exp['mem']} impl {cmem}")
            # the real integrity check on the live handle and on a fresh one (C05, pass direction)
            for which, h in (("live", rp.ds), ("fresh", None)):
                try:
                    if h is None:
                        from sedpack.io import Dataset
                        h = Dataset(rp.root)
                    h.check(show_progressbar=False)
                except Exception as exc:  # pylint: disable=broad-except
                    out["problems"].append(("check-failed", f"step {i} {nm}: check() on the {which} handle raised "
                                            f"{type(exc).__name__}: {str(exc)[:200]}"))
                    break
            # creating a dataset where one exists is refused and changes nothing (C08)
            if task.get("create_again", True):
                before = _snapshot_bytes(rp.root)
                # the existing directory is named the way callers name it: absolutely, relative to the working
                # directory, or below the home directory ("~/...", the spelling of the library's own quick start)
                spelling = i % 3
                home0 = os.environ.get("HOME")
                try:
                    from sedpack.io import Dataset, Metadata
                    if spelling == 1:
                        where = Path(os.path.relpath(rp.root, os.getcwd()))
                    elif spelling == 2:
                        os.environ["HOME"] = str(rp.root.parent)
                        where = Path("~") / rp.root.name
                    else:
                        where = rp.root
                    Dataset.create(where, Metadata(description="again"),
                                   dsreal.structure(task["fmt"], task.get("compression", ""), 7, ("md5",)))
                    out["problems"].append(("create-again-accepted", f"step {i}: Dataset.create on an existing "
                                            f"dataset returned normally"))
                except Exception as exc:  # pylint: disable=broad-except
                    if type(exc).__name__ != "DatasetExistsError":
                        out["problems"].append(("create-again-error", f"step {i}: {type(exc).__name__}"))
                finally:
                    if home0 is None:
                        os.environ.pop("HOME", None)
                    else:
                        os.environ["HOME"] = home0
                if _snapshot_bytes(rp.root) != before:
                    out["problems"].append(("create-again-changed", f"step {i}: a refused Dataset.create changed "
                                            f"files on disk"))
        for kind, what in rp.problems:
            out["problems"].append((kind, what))
    except Exception:  # pylint: disable=broad-except
        out["error"] = traceback.format_exc()
    finally:
        if rp is not None:
            rp.close()
        shutil.rmtree(tmp, ignore_errors=True)
    return out


_POOL = None


def _init_worker():
    os.environ.setdefault("TF_CPP_MIN_LOG_LEVEL", "3")
    os.environ["TQDM_DISABLE"] = "1"
    from . import rustext
    if rustext.SO.exists():
        rustext.preload()
    import sedpack.io  # noqa: F401  pylint: disable=unused-import


def pool(n: int = 14):
    global _POOL  # pylint: disable=global-statement
    if _POOL is None:
        _POOL = cf.ProcessPoolExecutor(max_workers=n, mp_context=mp.get_context("spawn"), initializer=_init_worker)
    return _POOL


def shutdown_pool():
    global _POOL  # pylint: disable=global-statement
    if _POOL is not None:
        procs = list(getattr(_POOL, "_processes", {}).values())
        _POOL.shutdown(wait=False, cancel_futures=True)
        for p in procs:  # a worker that is stuck in a hung pass must not outlive the check
            try:
                p.kill()
            except Exception:  # pylint: disable=broad-except
                pass
        _POOL = None


def _call(fn, task, index):
    """Every second task runs with the library's loggers switched to DEBUG (records are created and dropped): how
    verbose a user has made the logging is part of the environment, and the behaviour must not depend on it."""
    import logging
    lg = logging.getLogger("sedpack")
    if not any(isinstance(h, logging.NullHandler) for h in lg.handlers):
        lg.addHandler(logging.NullHandler())
    lg.propagate = False
    lg.setLevel(logging.DEBUG if index % 2 else logging.WARNING)
    return fn(task)


class ProcessFrozen(Exception):
    """A worker process stopped making progress altogether (not even its own watchdog threads ran)."""

    def __init__(self, task, detail):
        super().__init__(detail)
        self.task = task
        self.detail = detail


FREEZE_LIMIT = 1500.0   # seconds a single task may run before its process is examined


def run_histories(tasks: list[dict], fn=run_history, freeze_limit: float = FREEZE_LIMIT,
                  frozen_ok: bool = False) -> list[dict]:
    """Runs the tasks in the worker pool. Watchdogs inside a worker are threads; a pass that blocks while holding the
    interpreter lock freezes them too, so the parent keeps its own clock: a task that has been running for
    `freeze_limit` seconds is run once more, alone, in a fresh process with the same limit; if it freezes again the
    result for that task is {"frozen": True, ...} (callers report it as a hang), otherwise its result is used."""
    import time as _time
    global _POOL  # pylint: disable=global-statement
    futs = [pool().submit(_call, fn, t, i) for i, t in enumerate(tasks)]
    outs: list = [None] * len(tasks)
    seen_running: dict[int, float] = {}
    pending = set(range(len(tasks)))
    suspects: list[int] = []
    while pending:
        done_now = [i for i in pending if futs[i].done()]
        for i in done_now:
            pending.discard(i)
            try:
                outs[i] = futs[i].result()
            except cf.process.BrokenProcessPool:
                suspects.append(i)
            except cf.CancelledError:
                suspects.append(i)
        now = _time.time()
        for i in pending:
            if futs[i].running():
                seen_running.setdefault(i, now)
        stuck = [i for i in pending if i in seen_running and now - seen_running[i] > freeze_limit]
        if stuck:
            # the pool is beyond repair (its processes are killed); everything unfinished is examined alone
            suspects += sorted(pending)
            pending.clear()
            shutdown_pool()
            break
        if not done_now:
            _time.sleep(0.05)
    n_frozen = 0
    for n, i in enumerate(suspects):
        if n_frozen >= 3:
            # three confirmed witnesses are enough; the rest is left unexamined (and says so) to bound the time
            outs[i] = {"skipped_after_freeze": True, "error": None}
            continue
        shutdown_pool()
        _POOL = cf.ProcessPoolExecutor(max_workers=1, mp_context=mp.get_context("spawn"), initializer=_init_worker)
        f = _POOL.submit(_call, fn, tasks[i], i)
        try:
            outs[i] = f.result(timeout=freeze_limit if i in seen_running else 4 * freeze_limit)
        except cf.process.BrokenProcessPool as exc:
            # the process DIED (initialiser failure, crash, killed): that is not a freeze and nothing can be attributed
            shutdown_pool()
            raise MachineryError(f"a worker process died while running a task alone: {exc}") from exc
        except cf.TimeoutError:
            n_frozen += 1
            outs[i] = {"frozen": True, "error": None,
                       "detail": f"the worker process did not finish the task within {int(freeze_limit)} s, neither "
                                 f"in the pool nor alone in a fresh process, and its own watchdog threads did not fire"}
        shutdown_pool()
    if not frozen_ok and any(isinstance(o, dict) and (o.get("frozen") or o.get("skipped_after_freeze")) for o in outs):
        raise MachineryError("a worker process froze: " + next(o["detail"] for o in outs if o.get("frozen")))  # noqa
    return outs


# ------------------------------------------------------------------------------------------------
# TLC as the evaluator of the property predicates


def evaluate(ctx: Ctx, states: list[dict], tag: str, *, eps: int = 2, hashing: bool = True,
             batch: int = 4000) -> list[tuple[int, str]]:
    """Runs Dataset_Eval over the projected states; returns [(index, predicate name)] of false predicates."""
    bad = []
    jobs = []
    for b0 in range(0, len(states), batch):
        chunk = states[b0:b0 + batch]
        d = ctx.tmp / f"eval_{tag}_{b0}"
        d.mkdir(parents=True, exist_ok=True)
        sf = d / "states.json"
        sf.write_text(json.dumps(chunk))
        c = consts(EPS=eps, Hashing=hashing, Splits=frozenset({"train", "test", "holdout"}))
        mod, cfg = tlc.make_model(d, "Dataset_Eval", c, spec="ESpec", invariants=["EvalAll"])
        jobs.append((b0, len(chunk), d, mod, cfg, sf))

    def one(job):
        b0, n, d, mod, cfg, sf = job
        res = tlc.run(mod, cfg, workers=1, workdir=d, coverage=False, cont=True, env={"STATES_FILE": str(sf)},
                      timeout=3000)
        seen = set()
        out = []
        for p in res.prints:
            if isinstance(p, tuple) and p and p[0] == "EVALUATED":
                seen.add(p[1])
            elif isinstance(p, tuple) and p and p[0] == "PREDICATE-FALSE":
                out.append((b0 + p[2] - 1, p[1]))
        if len(seen) != n:
            raise MachineryError(f"Dataset_Eval evaluated {len(seen)} of {n} states\n{res.out[-3000:]}")
        return out, res

    with cf.ThreadPoolExecutor(max_workers=8) as ex:
        for out, res in ex.map(one, jobs):
            bad.extend(out)
            ctx.count("eval_states_checked_by_tlc", res.distinct)
    return sorted(set(bad))


def _sleep_task(task: dict) -> dict:
    """Self-test helper for the freeze detection of run_histories."""
    import time as _t
    _t.sleep(task["s"])
    return {"ok": True, "error": None}
