#!/usr/bin/env python3
"""Generates seeded/README.md from seeded/*/meta.json."""
import json
from pathlib import Path

ROOT = Path(__file__).resolve().parent.parent / "seeded"
SUMS = json.loads((Path(__file__).resolve().parent / "seed_summaries.json").read_text())
rows = []
for d in sorted(ROOT.iterdir()):
    m = d / "meta.json"
    if not m.exists():
        continue
    meta = json.loads(m.read_text())
    extra = SUMS.get(meta["seed"], {})
    if extra:
        meta["summary"] = extra["summary"]
        meta["needs_to_manifest"] = extra["needs"]
        m.write_text(json.dumps(meta, indent=1))
    notes = (d / "notes.md").read_text() if (d / "notes.md").exists() else ""
    first = ""
    for l in notes.splitlines():
        l = l.strip()
        if l and not l.startswith("#"):
            first = l
            break
    checks = meta.get("checks", {})
    res = "; ".join(f"{c}: exit {r['exit']}" + (f" ({r['violations']} VIOLATION lines)" if r["exit"] == 1 else "")
                    for c, r in checks.items())
    rows.append((meta["seed"], meta["breaks_property"], "yes" if meta.get("confirmed") else "NO",
                 ", ".join(meta.get("caught_by", [])) or "-", res,
                 (meta.get("summary") or first[:220]) + " — NEEDS: " + meta.get("needs_to_manifest", "")))
lines = ["# Seeded changes", "",
         "Each directory holds `patch.diff` (apply with `git -C /repo apply`), the author's `demo.py` and `notes.md`, and",
         "`meta.json` written by `tools/seed_eval.py`: my own confirmation (demo exit without / with the change, the existing",
         "test suite with the change) and the outcome of the named checks (quick tier) with the change applied to /repo.", "",
         "| seed | breaks | confirmed | caught by | check outcomes | what the change is |", "|---|---|---|---|---|---|"]
for r in rows:
    lines.append("| " + " | ".join(str(x).replace("|", "/") for x in r) + " |")
(ROOT / "README.md").write_text("\n".join(lines) + "\n")
print(len(rows), "seeded changes")
