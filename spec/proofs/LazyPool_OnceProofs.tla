-------------------------- MODULE LazyPool_OnceProofs --------------------------
(* TLAPS proof that the lazy thread pool hands every input to its caller AT MOST ONCE and hands out nothing   *)
(* but inputs (the safety half of C13 / C02), for EVERY thread count, input length, failing set, abandon       *)
(* position, prefill and number of pool reuses.  The inductive invariant: in the current round the work        *)
(* queue, the workers' hands, the result queue, the consumer's hand and the output hold pairwise disjoint      *)
(* sets of inputs, each without repetition, all below the number of inputs pulled so far.                      *)
EXTENDS LazyPool_Proofs

Abs(x) == IF x < 0 THEN 0 - x ELSE x
AS(s) == {Abs(s[i]) : i \in {j \in 1..Len(s) : s[j] # 0}}                    \* inputs present in a queue
NoDupA(s) == \A i, j \in 1..Len(s) : (i # j /\ s[i] # 0 /\ s[j] # 0) => Abs(s[i]) # Abs(s[j])
Held(w) == wpc[w] \in {"apply", "put"}
HeldNow == {w \in Ws(rnd) : Held(w)}
InH == {Abs(witem[w]) : w \in HeldNow}
InC == IF cpc \in {"putnext", "yield", "raise"} THEN {Abs(cur)} ELSE {}
Upto == {x \in 1..N : x <= fed}

Disj5(q, h, r, c, y) ==
    /\ q \cap h = {} /\ q \cap r = {} /\ q \cap c = {} /\ q \cap y = {}
    /\ h \cap r = {} /\ h \cap c = {} /\ h \cap y = {}
    /\ r \cap c = {} /\ r \cap y = {}
    /\ c \cap y = {}
Good(q, h, r, c, y, up) ==
    /\ q \subseteq up /\ h \subseteq up /\ r \subseteq up /\ c \subseteq up /\ y \subseteq up
    /\ Disj5(q, h, r, c, y)

OnceInv ==
    /\ wpc \in [W -> {"idle", "get", "apply", "put", "fwd", "exit", "dead"}]
    /\ NoDupA(toProc[rnd]) /\ NoDupA(results[rnd]) /\ NoDupA(yielded[rnd])
    /\ \A v, w \in HeldNow : v # w => Abs(witem[v]) # Abs(witem[w])
    /\ \A w \in HeldNow : witem[w] # 0
    /\ \A i \in 1..Len(yielded[rnd]) : yielded[rnd][i] > 0
    /\ cpc \in {"putnext", "yield"} => cur > 0
    /\ cpc = "raise" => cur < 0
    /\ Good(AS(toProc[rnd]), InH, AS(results[rnd]), InC, AS(yielded[rnd]), Upto)
    /\ \A r \in Round : r > rnd =>
          /\ toProc[r] = <<>> /\ results[r] = <<>> /\ yielded[r] = <<>>
          /\ \A w \in Ws(r) : wpc[w] = "idle"
    /\ \A r \in Round : r < rnd => (NoDupA(yielded[r]) /\ AS(yielded[r]) \subseteq 1..N
                                    /\ \A i \in 1..Len(yielded[r]) : yielded[r][i] > 0)

(* ---- queues as sets ------------------------------------------------------------------------------------ *)
LEMMA AbsProps == \A x \in Int : Abs(x) \in Nat /\ (x # 0 => Abs(x) > 0) /\ (x > 0 => Abs(x) = x) /\ Abs(0 - x) = Abs(x)
  BY DEF Abs

LEMMA EmptyAS == AS(<<>>) = {} /\ NoDupA(<<>>)
  BY EmptySeq DEF AS, NoDupA

LEMMA AppendAS ==
    ASSUME NEW s \in Seq(Int), NEW x \in Int
    PROVE  /\ AS(Append(s, x)) = (IF x = 0 THEN AS(s) ELSE AS(s) \cup {Abs(x)})
           /\ (NoDupA(s) /\ (x # 0 => Abs(x) \notin AS(s))) => NoDupA(Append(s, x))
  <1> DEFINE t == Append(s, x)
  <1>1. /\ Len(t) = Len(s) + 1 /\ Len(s) \in Nat
        /\ \A j \in 1..Len(s) : t[j] = s[j]
        /\ t[Len(s) + 1] = x
    BY AppendProperties, LenProperties
  <1>2. AS(t) = (IF x = 0 THEN AS(s) ELSE AS(s) \cup {Abs(x)})
    <2>1. ASSUME NEW y \in AS(t) PROVE y \in AS(s) \/ (x # 0 /\ y = Abs(x))
      <3>1. PICK i \in 1..Len(t) : t[i] # 0 /\ y = Abs(t[i])
        BY DEF AS
      <3>2. CASE i = Len(s) + 1
        BY <3>1, <3>2, <1>1
      <3>3. CASE i \in 1..Len(s)
        BY <3>1, <3>3, <1>1 DEF AS
      <3> QED BY <3>1, <3>2, <3>3, <1>1
    <2>2. ASSUME NEW y \in AS(s) PROVE y \in AS(t)
      <3>1. PICK i \in 1..Len(s) : s[i] # 0 /\ y = Abs(s[i])
        BY DEF AS
      <3>2. i \in 1..Len(t) /\ t[i] = s[i]
        BY <3>1, <1>1
      <3> QED BY <3>1, <3>2 DEF AS
    <2>3. ASSUME x # 0 PROVE Abs(x) \in AS(t)
      <3>1. Len(s) + 1 \in 1..Len(t) /\ t[Len(s) + 1] # 0
        BY <2>3, <1>1
      <3> QED BY <3>1, <1>1 DEF AS
    <2> QED BY <2>1, <2>2, <2>3
  <1>3. ASSUME NoDupA(s), x # 0 => Abs(x) \notin AS(s) PROVE NoDupA(t)
    <2> SUFFICES ASSUME NEW i \in 1..Len(t), NEW j \in 1..Len(t), i # j, t[i] # 0, t[j] # 0
                 PROVE  Abs(t[i]) # Abs(t[j])
      BY DEF NoDupA
    <2>1. CASE i \in 1..Len(s) /\ j \in 1..Len(s)
      BY <2>1, <1>1, <1>3 DEF NoDupA
    <2>2. CASE i = Len(s) + 1 /\ j \in 1..Len(s)
      <3>1. t[j] = s[j] /\ s[j] # 0 /\ t[i] = x /\ x # 0
        BY <2>2, <1>1
      <3>2. Abs(s[j]) \in AS(s)
        BY <2>2, <3>1 DEF AS
      <3> QED BY <3>1, <3>2, <1>3
    <2>3. CASE j = Len(s) + 1 /\ i \in 1..Len(s)
      <3>1. t[i] = s[i] /\ s[i] # 0 /\ t[j] = x /\ x # 0
        BY <2>3, <1>1
      <3>2. Abs(s[i]) \in AS(s)
        BY <2>3, <3>1 DEF AS
      <3> QED BY <3>1, <3>2, <1>3
    <2> QED BY <2>1, <2>2, <2>3, <1>1
  <1> QED BY <1>2, <1>3

LEMMA TailAS ==
    ASSUME NEW s \in Seq(Int), s # <<>>, NoDupA(s)
    PROVE  /\ NoDupA(Tail(s))
           /\ AS(Tail(s)) = (IF Head(s) = 0 THEN AS(s) ELSE AS(s) \ {Abs(Head(s))})
           /\ Head(s) # 0 => Abs(Head(s)) \in AS(s)
  <1> DEFINE t == Tail(s)
  <1>1. /\ Len(s) \in Nat /\ Len(s) >= 1 /\ Len(t) = Len(s) - 1 /\ Head(s) = s[1]
        /\ \A j \in 1..Len(t) : t[j] = s[j + 1]
    BY HeadTailProperties, LenProperties, EmptySeq
  <1>2. NoDupA(t)
    <2> SUFFICES ASSUME NEW i \in 1..Len(t), NEW j \in 1..Len(t), i # j, t[i] # 0, t[j] # 0
                 PROVE  Abs(t[i]) # Abs(t[j])
      BY DEF NoDupA
    <2>1. i + 1 \in 1..Len(s) /\ j + 1 \in 1..Len(s) /\ i + 1 # j + 1 /\ t[i] = s[i + 1] /\ t[j] = s[j + 1]
      BY <1>1
    <2> QED BY <2>1 DEF NoDupA
  <1>3. Head(s) # 0 => Abs(Head(s)) \in AS(s)
    <2>1. 1 \in 1..Len(s)
      BY <1>1
    <2> QED BY <2>1, <1>1 DEF AS
  <1>4. AS(t) = (IF Head(s) = 0 THEN AS(s) ELSE AS(s) \ {Abs(Head(s))})
    <2>1. ASSUME NEW y \in AS(t) PROVE y \in AS(s) /\ (Head(s) # 0 => y # Abs(Head(s)))
      <3>1. PICK i \in 1..Len(t) : t[i] # 0 /\ y = Abs(t[i])
        BY DEF AS
      <3>2. i + 1 \in 1..Len(s) /\ s[i + 1] = t[i] /\ i + 1 # 1
        BY <3>1, <1>1
      <3>3. y \in AS(s)
        BY <3>1, <3>2 DEF AS
      <3>4. Head(s) # 0 => y # Abs(Head(s))
        <4>1. 1 \in 1..Len(s)
          BY <1>1
        <4> QED BY <3>1, <3>2, <4>1, <1>1 DEF NoDupA
      <3> QED BY <3>3, <3>4
    <2>2. ASSUME NEW y \in AS(s), Head(s) = 0 \/ y # Abs(Head(s)) PROVE y \in AS(t)
      <3>1. PICK i \in 1..Len(s) : s[i] # 0 /\ y = Abs(s[i])
        BY DEF AS
      <3>2. i # 1
        BY <3>1, <2>2, <1>1
      <3>3. i - 1 \in 1..Len(t) /\ t[i - 1] = s[i]
        BY <3>1, <3>2, <1>1
      <3> QED BY <3>1, <3>3 DEF AS
    <2> QED BY <2>1, <2>2
  <1> QED BY <1>2, <1>3, <1>4

(* ---- the invariant ------------------------------------------------------------------------------------- *)
LEMMA InitOnce == Init => OnceInv
  <1> SUFFICES ASSUME Init PROVE OnceInv
    OBVIOUS
  <1> USE ConstAssump, RoundProps
  <1>1. rnd = 1 /\ \A r \in Round : toProc[r] = <<>> /\ results[r] = <<>> /\ yielded[r] = <<>>
    BY DEF Init
  <1>2. \A w \in W : wpc[w] \in {"get", "idle"} /\ (w[1] # 1 => wpc[w] = "idle")
    BY DEF Init
  <1>3. HeldNow = {} /\ InH = {} /\ InC = {}
    BY <1>2 DEF HeldNow, Held, InH, InC, Ws, Init
  <1>4. wpc \in [W -> {"idle", "get", "apply", "put", "fwd", "exit", "dead"}]
    BY DEF Init
  <1>5. \A r \in Round : r > rnd => \A w \in Ws(r) : wpc[w] = "idle"
    BY <1>1, <1>2 DEF Ws, Round
  <1>6. cpc = "prefill"
    BY DEF Init
  <1> QED BY <1>1, <1>3, <1>4, <1>5, <1>6, EmptyAS, EmptySeq DEF OnceInv, Good, Disj5, Round

LEMMA UptoStep == ASSUME fed \in Nat, N \in Nat
                  PROVE  /\ Upto \subseteq {x \in 1..N : x <= fed + 1}
                         /\ fed < N => (fed + 1 \in {x \in 1..N : x <= fed + 1} /\ fed + 1 \notin Upto)
  BY DEF Upto

LEMMA GoodMono ==
    ASSUME NEW q, NEW h, NEW r, NEW c, NEW y, NEW up, NEW up2, Good(q, h, r, c, y, up), up \subseteq up2
    PROVE  Good(q, h, r, c, y, up2)
  BY DEF Good, Disj5

(* frame: what an action that leaves a set of variables alone leaves alone *)
LEMMA NextOnceConsumer ==
    ASSUME OnceInv, Inv, Inv', Consumer
    PROVE  OnceInv'
  <1> USE ConstAssump, RoundProps
  <1>t. /\ rnd \in Round /\ fed \in Nat /\ cur \in Int
        /\ toProc \in [Round -> Seq(Int)] /\ results \in [Round -> Seq(Int)] /\ yielded \in [Round -> Seq(Int)]
        /\ witem \in [W -> Int]
        /\ toProc[rnd] \in Seq(Int) /\ results[rnd] \in Seq(Int) /\ yielded[rnd] \in Seq(Int)
    BY DEF Inv
  <1>w. wpc \in [W -> {"idle", "get", "apply", "put", "fwd", "exit", "dead"}]
    BY DEF OnceInv
  <1>g. Good(AS(toProc[rnd]), InH, AS(results[rnd]), InC, AS(yielded[rnd]), Upto)
    BY DEF OnceInv
  (* a consumer step other than CNextRound keeps the round and the workers *)
  <1>f. ASSUME rnd' = rnd, wpc' = wpc, witem' = witem
        PROVE  /\ HeldNow' = HeldNow /\ InH' = InH
               /\ (\A v, w \in HeldNow : v # w => Abs(witem[v]) # Abs(witem[w]))'
               /\ (\A w \in HeldNow : witem[w] # 0)'
               /\ (wpc \in [W -> {"idle", "get", "apply", "put", "fwd", "exit", "dead"}])'
    BY <1>f, <1>w DEF HeldNow, InH, Held, Ws, OnceInv
  <1>1. CASE CPrefillPut \/ CPutNext
    <2>0. /\ toProc' = [toProc EXCEPT ![rnd] = Append(@, NextElem)] /\ fed' = fed + 1
          /\ UNCHANGED <<results, wpc, witem, rnd, yielded, cur>>
          /\ cpc \in {"prefill", "putnext"}
          /\ (cpc = "prefill" => cpc' \in {"prefill", "get", "reset"}) /\ (cpc = "putnext" => cpc' = "yield")
      BY <1>1, LoopPcIn DEF CPrefillPut, CPutNext
    <2>1. NextElem \in Int /\ (fed < N => NextElem = fed + 1) /\ (~(fed < N) => NextElem = 0)
      BY <1>t DEF NextElem, SENT
    <2>2. toProc'[rnd] = Append(toProc[rnd], NextElem) /\ \A r \in Round : r # rnd => toProc'[r] = toProc[r]
      BY <2>0, <1>t
    <2>3. InC' = InC
      BY <2>0 DEF InC
    <2>4. Upto' = {x \in 1..N : x <= fed + 1}
      BY <2>0 DEF Upto
    <2>7. NoDupA(toProc'[rnd]) /\ Good(AS(toProc'[rnd]), InH, AS(results[rnd]), InC, AS(yielded[rnd]), Upto')
      <3>a. CASE fed < N
        <4>1. fed + 1 # 0 /\ Abs(fed + 1) = fed + 1 /\ fed + 1 \in Upto' /\ fed + 1 \notin Upto /\ Upto \subseteq Upto'
          BY <3>a, <2>4, <1>t, UptoStep, AbsProps
        <4>2. AS(toProc'[rnd]) = AS(toProc[rnd]) \cup {fed + 1} /\ NoDupA(toProc'[rnd])
          <5>1. Abs(NextElem) \notin AS(toProc[rnd])
            BY <4>1, <2>1, <3>a, <1>g DEF Good
          <5> QED BY <2>1, <2>2, <3>a, <4>1, <5>1, <1>t, AppendAS DEF OnceInv
        <4>3. Good(AS(toProc'[rnd]), InH, AS(results[rnd]), InC, AS(yielded[rnd]), Upto')
          BY <4>1, <4>2, <1>g DEF Good, Disj5
        <4> QED BY <4>2, <4>3
      <3>b. CASE ~(fed < N)
        <4>1. AS(toProc'[rnd]) = AS(toProc[rnd]) /\ NoDupA(toProc'[rnd])
          BY <2>1, <2>2, <3>b, <1>t, AppendAS DEF OnceInv
        <4>2. Upto \subseteq Upto'
          BY <2>4, <1>t, UptoStep
        <4>3. Good(AS(toProc'[rnd]), InH, AS(results[rnd]), InC, AS(yielded[rnd]), Upto')
          BY <4>1, <4>2, <1>g, GoodMono
        <4> QED BY <4>1, <4>3
      <3> QED BY <3>a, <3>b
    <2>8. (cpc \in {"putnext", "yield"} => cur > 0)' /\ (cpc = "raise" => cur < 0)'
      BY <2>0 DEF OnceInv
    <2>9. HeldNow' = HeldNow /\ InH' = InH
      BY <2>0, <1>f
    <2>10. (\A r \in Round : r > rnd => /\ toProc[r] = <<>> /\ results[r] = <<>> /\ yielded[r] = <<>>
                                        /\ \A w \in Ws(r) : wpc[w] = "idle")'
      BY <2>0, <2>2 DEF OnceInv
    <2>11. (\A r \in Round : r < rnd => (NoDupA(yielded[r]) /\ AS(yielded[r]) \subseteq 1..N
                                    /\ \A i \in 1..Len(yielded[r]) : yielded[r][i] > 0))'
      BY <2>0 DEF OnceInv
    <2>12. (Good(AS(toProc[rnd]), InH, AS(results[rnd]), InC, AS(yielded[rnd]), Upto))'
      BY <2>0, <2>3, <2>7, <2>9
    <2>13. (NoDupA(toProc[rnd]) /\ NoDupA(results[rnd]) /\ NoDupA(yielded[rnd]))'
           /\ (\A i \in 1..Len(yielded[rnd]) : yielded[rnd][i] > 0)'
      BY <2>0, <2>7 DEF OnceInv
    <2> QED BY <2>0, <1>f, <2>8, <2>10, <2>11, <2>12, <2>13 DEF OnceInv
  <1>2. CASE CGet
    <2>0. /\ cpc = "get" /\ results[rnd] # <<>> /\ results' = [results EXCEPT ![rnd] = Tail(@)]
          /\ UNCHANGED <<toProc, wpc, witem, rnd, fed, yielded>>
      BY <1>2 DEF CGet
    <2> DEFINE x == Head(results[rnd])
    <2>1. x \in Int /\ results'[rnd] = Tail(results[rnd]) /\ \A r \in Round : r # rnd => results'[r] = results[r]
      BY <2>0, <1>t, HeadTailProperties
    <2>2. /\ NoDupA(results'[rnd])
          /\ AS(results'[rnd]) = (IF x = 0 THEN AS(results[rnd]) ELSE AS(results[rnd]) \ {Abs(x)})
          /\ x # 0 => Abs(x) \in AS(results[rnd])
      BY <2>0, <2>1, <1>t, TailAS DEF OnceInv
    <2>3. /\ x = 0 => (cur' = cur /\ cpc' \in {"get", "reset"})
          /\ (x # 0 /\ x < 0) => (cur' = x /\ cpc' = "raise")
          /\ (x # 0 /\ ~(x < 0)) => (cur' = x /\ cpc' = "putnext")
      BY <1>2 DEF CGet, SENT
    <2>4. InC = {} /\ InC' = (IF x = 0 THEN {} ELSE {Abs(x)})
      BY <2>0, <2>1, <2>3 DEF InC
    <2>5. HeldNow' = HeldNow /\ InH' = InH /\ Upto' = Upto
      BY <2>0, <1>f DEF Upto
    <2>6. Good(AS(toProc[rnd]), InH, AS(results'[rnd]), InC', AS(yielded[rnd]), Upto)
      BY <2>2, <2>4, <1>g DEF Good, Disj5
    <2>7. (cpc \in {"putnext", "yield"} => cur > 0)' /\ (cpc = "raise" => cur < 0)'
      BY <2>1, <2>3
    <2>8. (\A r \in Round : r > rnd => /\ toProc[r] = <<>> /\ results[r] = <<>> /\ yielded[r] = <<>>
                                       /\ \A w \in Ws(r) : wpc[w] = "idle")'
      BY <2>0, <2>1 DEF OnceInv
    <2>9. (\A r \in Round : r < rnd => (NoDupA(yielded[r]) /\ AS(yielded[r]) \subseteq 1..N
                                    /\ \A i \in 1..Len(yielded[r]) : yielded[r][i] > 0))'
      BY <2>0 DEF OnceInv
    <2>10. (Good(AS(toProc[rnd]), InH, AS(results[rnd]), InC, AS(yielded[rnd]), Upto))'
      BY <2>0, <2>5, <2>6
    <2>11. (NoDupA(toProc[rnd]) /\ NoDupA(results[rnd]) /\ NoDupA(yielded[rnd]))'
           /\ (\A i \in 1..Len(yielded[rnd]) : yielded[rnd][i] > 0)'
      BY <2>0, <2>2 DEF OnceInv
    <2> QED BY <2>0, <1>f, <2>7, <2>8, <2>9, <2>10, <2>11 DEF OnceInv
  <1>3. CASE CYield
    <2>0. /\ cpc = "yield" /\ yielded' = [yielded EXCEPT ![rnd] = Append(@, cur)]
          /\ cpc' \in {"abandon", "get", "reset"}
          /\ UNCHANGED <<toProc, results, wpc, witem, rnd, fed, cur>>
      BY <1>3, LoopPcIn DEF CYield
    <2>1. cur > 0 /\ Abs(cur) = cur /\ cur # 0 /\ InC = {cur} /\ InC' = {}
      BY <2>0, <1>t, AbsProps DEF OnceInv, InC
    <2>2. yielded'[rnd] = Append(yielded[rnd], cur) /\ \A r \in Round : r # rnd => yielded'[r] = yielded[r]
      BY <2>0, <1>t
    <2>3. cur \notin AS(yielded[rnd])
      BY <2>1, <1>g DEF Good, Disj5
    <2>4. AS(yielded'[rnd]) = AS(yielded[rnd]) \cup {cur} /\ NoDupA(yielded'[rnd])
      BY <2>1, <2>2, <2>3, <1>t, AppendAS DEF OnceInv
    <2>5. \A i \in 1..Len(yielded'[rnd]) : yielded'[rnd][i] > 0
      <3>1. /\ Len(yielded'[rnd]) = Len(yielded[rnd]) + 1 /\ Len(yielded[rnd]) \in Nat
            /\ \A j \in 1..Len(yielded[rnd]) : yielded'[rnd][j] = yielded[rnd][j]
            /\ yielded'[rnd][Len(yielded[rnd]) + 1] = cur
        BY <2>2, <1>t, AppendProperties, LenProperties
      <3> QED BY <3>1, <2>1 DEF OnceInv
    <2>6. HeldNow' = HeldNow /\ InH' = InH /\ Upto' = Upto
      BY <2>0, <1>f DEF Upto
    <2>7. Good(AS(toProc[rnd]), InH, AS(results[rnd]), InC', AS(yielded'[rnd]), Upto)
      BY <2>1, <2>4, <1>g DEF Good, Disj5
    <2>8. (cpc \in {"putnext", "yield"} => cur > 0)' /\ (cpc = "raise" => cur < 0)'
      BY <2>0
    <2>9. (\A r \in Round : r > rnd => /\ toProc[r] = <<>> /\ results[r] = <<>> /\ yielded[r] = <<>>
                                       /\ \A w \in Ws(r) : wpc[w] = "idle")'
      BY <2>0, <2>2 DEF OnceInv
    <2>10. (\A r \in Round : r < rnd => (NoDupA(yielded[r]) /\ AS(yielded[r]) \subseteq 1..N
                                    /\ \A i \in 1..Len(yielded[r]) : yielded[r][i] > 0))'
      BY <2>0, <2>2 DEF OnceInv
    <2>11. (Good(AS(toProc[rnd]), InH, AS(results[rnd]), InC, AS(yielded[rnd]), Upto))'
      BY <2>0, <2>6, <2>7
    <2>12. (NoDupA(toProc[rnd]) /\ NoDupA(results[rnd]) /\ NoDupA(yielded[rnd]))'
           /\ (\A i \in 1..Len(yielded[rnd]) : yielded[rnd][i] > 0)'
      BY <2>0, <2>4, <2>5 DEF OnceInv
    <2> QED BY <2>0, <1>f, <2>8, <2>9, <2>10, <2>11, <2>12 DEF OnceInv
  <1>4. CASE CResetPut
    <2>0. /\ cpc \in ResetPc /\ toProc' = [toProc EXCEPT ![rnd] = Append(@, SENT)]
          /\ cpc' \in {"between", "reset", "abandon", "raise"} /\ (cpc' # "between" => cpc' = cpc)
          /\ UNCHANGED <<results, wpc, witem, rnd, fed, yielded, cur>>
      BY <1>4 DEF CResetPut, ResetPc
    <2>1. toProc'[rnd] = Append(toProc[rnd], 0) /\ \A r \in Round : r # rnd => toProc'[r] = toProc[r]
      BY <2>0, <1>t DEF SENT
    <2>2. AS(toProc'[rnd]) = AS(toProc[rnd]) /\ NoDupA(toProc'[rnd])
      BY <2>1, <1>t, AppendAS DEF OnceInv
    <2>3. InC' \subseteq InC
      BY <2>0 DEF InC, ResetPc
    <2>4. HeldNow' = HeldNow /\ InH' = InH /\ Upto' = Upto
      BY <2>0, <1>f DEF Upto
    <2>5. Good(AS(toProc'[rnd]), InH, AS(results[rnd]), InC', AS(yielded[rnd]), Upto)
      BY <2>2, <2>3, <1>g DEF Good, Disj5
    <2>6. (cpc \in {"putnext", "yield"} => cur > 0)' /\ (cpc = "raise" => cur < 0)'
      BY <2>0 DEF OnceInv, ResetPc
    <2>7. (\A r \in Round : r > rnd => /\ toProc[r] = <<>> /\ results[r] = <<>> /\ yielded[r] = <<>>
                                       /\ \A w \in Ws(r) : wpc[w] = "idle")'
      BY <2>0, <2>1 DEF OnceInv
    <2>8. (\A r \in Round : r < rnd => (NoDupA(yielded[r]) /\ AS(yielded[r]) \subseteq 1..N
                                    /\ \A i \in 1..Len(yielded[r]) : yielded[r][i] > 0))'
      BY <2>0 DEF OnceInv
    <2>9. (Good(AS(toProc[rnd]), InH, AS(results[rnd]), InC, AS(yielded[rnd]), Upto))'
      BY <2>0, <2>4, <2>5
    <2>10. (NoDupA(toProc[rnd]) /\ NoDupA(results[rnd]) /\ NoDupA(yielded[rnd]))'
           /\ (\A i \in 1..Len(yielded[rnd]) : yielded[rnd][i] > 0)'
      BY <2>0, <2>2 DEF OnceInv
    <2> QED BY <2>0, <1>f, <2>6, <2>7, <2>8, <2>9, <2>10 DEF OnceInv
  <1>5. CASE CNextRound
    <2>0. /\ cpc = "between" /\ rnd < Rounds /\ rnd' = rnd + 1 /\ cpc' = "prefill" /\ fed' = 0
          /\ wpc' = [w \in W |-> IF w[1] = rnd + 1 THEN "get" ELSE wpc[w]]
          /\ UNCHANGED <<toProc, results, witem, yielded>>
      BY <1>5 DEF CNextRound
    <2>1. rnd + 1 \in Round /\ rnd' \in Round /\ rnd' > rnd
      BY <2>0, <1>t DEF Round
    <2>2. toProc[rnd'] = <<>> /\ results[rnd'] = <<>> /\ yielded[rnd'] = <<>>
      BY <2>0, <2>1 DEF OnceInv
    <2>3. HeldNow' = {} /\ InH' = {} /\ InC' = {}
      <3>1. \A w \in Ws(rnd') : wpc'[w] = "get"
        BY <2>0, <2>1 DEF Ws
      <3> QED BY <3>1, <2>0 DEF HeldNow, Held, InH, InC
    <2>4. (Good(AS(toProc[rnd]), InH, AS(results[rnd]), InC, AS(yielded[rnd]), Upto))'
      BY <2>0, <2>2, <2>3, EmptyAS DEF Good, Disj5
    <2>5. (NoDupA(toProc[rnd]) /\ NoDupA(results[rnd]) /\ NoDupA(yielded[rnd]))'
           /\ (\A i \in 1..Len(yielded[rnd]) : yielded[rnd][i] > 0)'
      BY <2>0, <2>2, EmptyAS, EmptySeq
    <2>6. (wpc \in [W -> {"idle", "get", "apply", "put", "fwd", "exit", "dead"}])'
      BY <2>0, <1>w
    <2>7. (\A r \in Round : r > rnd => /\ toProc[r] = <<>> /\ results[r] = <<>> /\ yielded[r] = <<>>
                                       /\ \A w \in Ws(r) : wpc[w] = "idle")'
      <3> SUFFICES ASSUME NEW r \in Round, r > rnd'
                   PROVE  /\ toProc'[r] = <<>> /\ results'[r] = <<>> /\ yielded'[r] = <<>>
                          /\ \A w \in Ws(r) : wpc'[w] = "idle"
        OBVIOUS
      <3>1. r > rnd /\ r # rnd + 1
        BY <2>0, <2>1, <1>t DEF Round
      <3>2. \A w \in Ws(r) : wpc'[w] = wpc[w]
        BY <2>0, <3>1 DEF Ws
      <3> QED BY <2>0, <3>1, <3>2 DEF OnceInv
    <2>8. (\A r \in Round : r < rnd => (NoDupA(yielded[r]) /\ AS(yielded[r]) \subseteq 1..N
                                    /\ \A i \in 1..Len(yielded[r]) : yielded[r][i] > 0))'
      <3> SUFFICES ASSUME NEW r \in Round, r < rnd'
                   PROVE  NoDupA(yielded[r]) /\ AS(yielded[r]) \subseteq 1..N
                          /\ \A i \in 1..Len(yielded[r]) : yielded[r][i] > 0
        BY <2>0
      <3>1. CASE r < rnd
        BY <3>1 DEF OnceInv
      <3>2. CASE r = rnd
        <4>1. AS(yielded[rnd]) \subseteq 1..N
          BY <1>g DEF Good, Upto
        <4> QED BY <3>2, <4>1 DEF OnceInv
      <3> QED BY <3>1, <3>2, <2>0, <1>t DEF Round
    <2>9. (\A v, w \in HeldNow : v # w => Abs(witem[v]) # Abs(witem[w]))' /\ (\A w \in HeldNow : witem[w] # 0)'
      BY <2>3
    <2>10. (cpc \in {"putnext", "yield"} => cur > 0)' /\ (cpc = "raise" => cur < 0)'
      BY <2>0
    <2> QED BY <2>4, <2>5, <2>6, <2>7, <2>8, <2>9, <2>10 DEF OnceInv
  <1> QED BY <1>1, <1>2, <1>3, <1>4, <1>5 DEF Consumer

LEMMA GoodSub ==
    ASSUME NEW q, NEW h, NEW r, NEW c, NEW y, NEW up, Good(q, h, r, c, y, up),
           NEW q2, NEW h2, NEW r2, NEW c2, NEW y2,
           q2 \subseteq q, h2 \subseteq h, r2 \subseteq r, c2 \subseteq c, y2 \subseteq y
    PROVE  Good(q2, h2, r2, c2, y2, up)
  BY DEF Good, Disj5

LEMMA NextOnceWorker ==
    ASSUME OnceInv, Inv, Inv', NEW w \in W, Worker(w)
    PROVE  OnceInv'
  <1> USE ConstAssump, RoundProps
  <1>t. /\ rnd \in Round /\ fed \in Nat /\ cur \in Int
        /\ toProc \in [Round -> Seq(Int)] /\ results \in [Round -> Seq(Int)] /\ yielded \in [Round -> Seq(Int)]
        /\ witem \in [W -> Int]
        /\ toProc[rnd] \in Seq(Int) /\ results[rnd] \in Seq(Int) /\ yielded[rnd] \in Seq(Int)
    BY DEF Inv
  <1>w. wpc \in [W -> {"idle", "get", "apply", "put", "fwd", "exit", "dead"}]
    BY DEF OnceInv
  <1>g. Good(AS(toProc[rnd]), InH, AS(results[rnd]), InC, AS(yielded[rnd]), Upto)
    BY DEF OnceInv
  <1>0. /\ wpc[w] \in {"get", "apply", "put", "fwd"} /\ w[1] \in Round /\ ~(w[1] > rnd)
        /\ UNCHANGED <<cpc, rnd, k, rk, fed, active, yielded, cur, outcome>>
        /\ wpc' \in [W -> {"idle", "get", "apply", "put", "fwd", "exit", "dead"}]
        /\ \A v \in W : v # w => wpc'[v] = wpc[v] /\ witem'[v] = witem[v]
        /\ \A r \in Round : r # w[1] => toProc'[r] = toProc[r] /\ results'[r] = results[r]
    <2>1. w[1] \in Round
      BY DEF W
    <2>2. wpc[w] \in {"get", "apply", "put", "fwd"}
      BY DEF Worker, WGet, WApply, WPut, WFwd
    <2>3. ~(w[1] > rnd)
      BY <2>1, <2>2 DEF OnceInv, Ws
    <2>4. UNCHANGED <<cpc, rnd, k, rk, fed, active, yielded, cur, outcome>>
      BY DEF Worker, WGet, WApply, WPut, WFwd
    <2>5. wpc' \in [W -> {"idle", "get", "apply", "put", "fwd", "exit", "dead"}]
          /\ \A v \in W : v # w => wpc'[v] = wpc[v] /\ witem'[v] = witem[v]
      BY <1>w, <1>t DEF Worker, WGet, WApply, WPut, WFwd
    <2>6. \A r \in Round : r # w[1] => toProc'[r] = toProc[r] /\ results'[r] = results[r]
      BY <1>t, <2>1 DEF Worker, WGet, WApply, WPut, WFwd
    <2> QED BY <2>1, <2>2, <2>3, <2>4, <2>5, <2>6
  (* clauses that no worker step can disturb *)
  <1>c. /\ InC' = InC /\ Upto' = Upto
        /\ (NoDupA(yielded[rnd]))' /\ (\A i \in 1..Len(yielded[rnd]) : yielded[rnd][i] > 0)'
        /\ (cpc \in {"putnext", "yield"} => cur > 0)' /\ (cpc = "raise" => cur < 0)'
        /\ (\A r \in Round : r < rnd => (NoDupA(yielded[r]) /\ AS(yielded[r]) \subseteq 1..N
                                    /\ \A i \in 1..Len(yielded[r]) : yielded[r][i] > 0))'
        /\ AS(yielded[rnd])' = AS(yielded[rnd])
    BY <1>0 DEF OnceInv, InC, Upto
  <1>d. (\A r \in Round : r > rnd => /\ toProc[r] = <<>> /\ results[r] = <<>> /\ yielded[r] = <<>>
                                     /\ \A v \in Ws(r) : wpc[v] = "idle")'
    <2> SUFFICES ASSUME NEW r \in Round, r > rnd
                 PROVE  /\ toProc'[r] = <<>> /\ results'[r] = <<>> /\ yielded'[r] = <<>>
                        /\ \A v \in Ws(r) : wpc'[v] = "idle"
      BY <1>0
    <2>1. r # w[1]
      BY <1>0
    <2>2. \A v \in Ws(r) : v # w
      BY <2>1 DEF Ws
    <2> QED BY <1>0, <2>1, <2>2 DEF OnceInv, Ws
  (* a worker of an older round touches nothing of the current one *)
  <1>1. CASE w[1] # rnd
    <2>1. toProc'[rnd] = toProc[rnd] /\ results'[rnd] = results[rnd]
      BY <1>1, <1>0, <1>t
    <2>2. \A v \in Ws(rnd) : v # w /\ wpc'[v] = wpc[v] /\ witem'[v] = witem[v]
      BY <1>1, <1>0 DEF Ws
    <2>3. HeldNow' = HeldNow
      BY <2>2, <1>0 DEF HeldNow, Held, Ws
    <2>4. InH' = InH
      BY <2>2, <2>3, <1>0 DEF InH, HeldNow
    <2>5. (\A u, v \in HeldNow : u # v => Abs(witem[u]) # Abs(witem[v]))' /\ (\A v \in HeldNow : witem[v] # 0)'
      BY <2>2, <2>3 DEF OnceInv, HeldNow
    <2>6. (Good(AS(toProc[rnd]), InH, AS(results[rnd]), InC, AS(yielded[rnd]), Upto))'
      BY <2>1, <2>4, <1>c, <1>g, <1>0
    <2>7. (NoDupA(toProc[rnd]) /\ NoDupA(results[rnd]))'
      BY <2>1, <1>0 DEF OnceInv
    <2> QED BY <1>0, <1>c, <1>d, <2>5, <2>6, <2>7 DEF OnceInv
  <1>2. CASE w[1] = rnd /\ WGet(w)
    <2>0. /\ wpc[w] = "get" /\ toProc[rnd] # <<>>
          /\ toProc' = [toProc EXCEPT ![rnd] = Tail(@)] /\ results' = results
          /\ witem' = [witem EXCEPT ![w] = Head(toProc[rnd])]
          /\ wpc' = [wpc EXCEPT ![w] = IF Head(toProc[rnd]) = SENT THEN "fwd" ELSE "apply"]
      BY <1>2 DEF WGet
    <2> DEFINE x == Head(toProc[rnd])
    <2>1. x \in Int /\ toProc'[rnd] = Tail(toProc[rnd]) /\ witem'[w] = x /\ w \in Ws(rnd) /\ ~Held(w)
          /\ wpc'[w] = (IF x = 0 THEN "fwd" ELSE "apply")
      BY <2>0, <1>2, <1>t, <1>w, HeadTailProperties DEF Ws, Held, SENT
    <2>2. /\ NoDupA(toProc'[rnd])
          /\ AS(toProc'[rnd]) = (IF x = 0 THEN AS(toProc[rnd]) ELSE AS(toProc[rnd]) \ {Abs(x)})
          /\ x # 0 => Abs(x) \in AS(toProc[rnd])
      BY <2>0, <2>1, <1>t, TailAS DEF OnceInv
    <2>3. \A v \in HeldNow : v # w /\ v \in W /\ wpc'[v] = wpc[v] /\ witem'[v] = witem[v]
      BY <2>1, <1>0 DEF HeldNow, Ws
    <2>4. HeldNow' = (IF x = 0 THEN HeldNow ELSE HeldNow \cup {w})
      <3>1. \A v \in Ws(rnd) : v # w => (Held(v)' <=> Held(v))
        BY <1>0 DEF Held, Ws
      <3>2. Held(w)' <=> x # 0
        BY <2>1 DEF Held
      <3> QED BY <3>1, <3>2, <2>1, <1>0 DEF HeldNow
    <2>5. InH' = (IF x = 0 THEN InH ELSE InH \cup {Abs(x)})
      BY <2>3, <2>4, <2>1 DEF InH
    <2>6. x # 0 => Abs(x) \notin InH
      BY <2>2, <1>g DEF Good, Disj5
    <2>7. (\A u, v \in HeldNow : u # v => Abs(witem[u]) # Abs(witem[v]))'
      <3> SUFFICES ASSUME NEW u \in HeldNow', NEW v \in HeldNow', u # v
                   PROVE  Abs(witem'[u]) # Abs(witem'[v])
        OBVIOUS
      <3>1. CASE u \in HeldNow /\ v \in HeldNow
        BY <3>1, <2>3 DEF OnceInv
      <3>2. CASE u = w /\ v \in HeldNow
        <4>1. Abs(witem[v]) \in InH /\ witem'[v] = witem[v] /\ witem'[u] = x /\ x # 0
          BY <3>2, <2>3, <2>1, <2>4 DEF InH
        <4> QED BY <4>1, <2>6
      <3>3. CASE v = w /\ u \in HeldNow
        <4>1. Abs(witem[u]) \in InH /\ witem'[u] = witem[u] /\ witem'[v] = x /\ x # 0
          BY <3>3, <2>3, <2>1, <2>4 DEF InH
        <4> QED BY <4>1, <2>6
      <3> QED BY <3>1, <3>2, <3>3, <2>4
    <2>8. (\A v \in HeldNow : witem[v] # 0)'
      BY <2>4, <2>3, <2>1 DEF OnceInv
    <2>9. (Good(AS(toProc[rnd]), InH, AS(results[rnd]), InC, AS(yielded[rnd]), Upto))'
      <3>1. Good(AS(toProc'[rnd]), InH', AS(results[rnd]), InC, AS(yielded[rnd]), Upto)
        BY <2>2, <2>5, <2>6, <1>g DEF Good, Disj5
      <3> QED BY <3>1, <2>0, <1>c, <1>0
    <2>10. (NoDupA(toProc[rnd]) /\ NoDupA(results[rnd]))'
      BY <2>2, <2>0, <1>0 DEF OnceInv
    <2> QED BY <1>0, <1>c, <1>d, <2>7, <2>8, <2>9, <2>10 DEF OnceInv
  <1>3. CASE w[1] = rnd /\ WApply(w)
    <2>0. /\ wpc[w] = "apply" /\ toProc' = toProc /\ results' = results
          /\ wpc'[w] \in {"dead", "put"} /\ (witem'[w] = witem[w] \/ witem'[w] = 0 - witem[w])
      BY <1>3, <1>t, <1>w DEF WApply
    <2>1. w \in HeldNow /\ witem[w] # 0 /\ witem[w] \in Int /\ Abs(witem'[w]) = Abs(witem[w]) /\ witem'[w] # 0
      <3>1. w \in HeldNow
        BY <2>0, <1>3 DEF HeldNow, Held, Ws
      <3>2. witem[w] # 0 /\ witem[w] \in Int
        BY <3>1, <1>t DEF OnceInv
      <3> QED BY <3>1, <3>2, <2>0, AbsProps DEF Abs
    <2>2. \A v \in Ws(rnd) : v # w => (Held(v)' <=> Held(v)) /\ witem'[v] = witem[v]
      BY <1>0 DEF Held, Ws
    <2>3. HeldNow' \subseteq HeldNow /\ \A v \in HeldNow' : Abs(witem'[v]) = Abs(witem[v]) /\ witem'[v] # 0
      BY <2>1, <2>2, <1>0 DEF HeldNow, OnceInv
    <2>4. InH' \subseteq InH
      BY <2>3 DEF InH
    <2>5. (\A u, v \in HeldNow : u # v => Abs(witem[u]) # Abs(witem[v]))' /\ (\A v \in HeldNow : witem[v] # 0)'
      BY <2>3 DEF OnceInv
    <2>6. (Good(AS(toProc[rnd]), InH, AS(results[rnd]), InC, AS(yielded[rnd]), Upto))'
      <3>1. Good(AS(toProc[rnd]), InH', AS(results[rnd]), InC, AS(yielded[rnd]), Upto)
        BY <2>4, <1>g, GoodSub
      <3> QED BY <3>1, <2>0, <1>c, <1>0
    <2>7. (NoDupA(toProc[rnd]) /\ NoDupA(results[rnd]))'
      BY <2>0, <1>0 DEF OnceInv
    <2> QED BY <1>0, <1>c, <1>d, <2>5, <2>6, <2>7 DEF OnceInv
  <1>4. CASE w[1] = rnd /\ WPut(w)
    <2>0. /\ wpc[w] = "put" /\ toProc' = toProc /\ witem' = witem
          /\ results' = [results EXCEPT ![rnd] = Append(@, witem[w])]
          /\ wpc' = [wpc EXCEPT ![w] = "get"]
      BY <1>4 DEF WPut
    <2> DEFINE x == witem[w]
    <2>1. w \in HeldNow /\ x # 0 /\ x \in Int /\ Abs(x) \in InH /\ results'[rnd] = Append(results[rnd], x)
      <3>1. w \in HeldNow
        BY <2>0, <1>4 DEF HeldNow, Held, Ws
      <3> QED BY <3>1, <2>0, <1>t DEF OnceInv, InH
    <2>2. Abs(x) \notin AS(results[rnd])
      BY <2>1, <1>g DEF Good, Disj5
    <2>3. AS(results'[rnd]) = AS(results[rnd]) \cup {Abs(x)} /\ NoDupA(results'[rnd])
      BY <2>1, <2>2, <1>t, AppendAS DEF OnceInv
    <2>4. HeldNow' = HeldNow \ {w}
      <3>1. \A v \in Ws(rnd) : v # w => (Held(v)' <=> Held(v))
        BY <1>0 DEF Held, Ws
      <3>2. ~Held(w)'
        BY <2>0, <1>w DEF Held
      <3> QED BY <3>1, <3>2, <2>1, <1>0 DEF HeldNow
    <2>5. InH' \subseteq InH /\ Abs(x) \notin InH'
      <3>1. \A v \in HeldNow' : v \in HeldNow /\ v # w /\ witem'[v] = witem[v]
        BY <2>4, <2>0
      <3>2. \A v \in HeldNow' : Abs(witem[v]) # Abs(x)
        BY <3>1, <2>1 DEF OnceInv
      <3> QED BY <3>1, <3>2 DEF InH
    <2>6. (\A u, v \in HeldNow : u # v => Abs(witem[u]) # Abs(witem[v]))' /\ (\A v \in HeldNow : witem[v] # 0)'
      BY <2>4, <2>0 DEF OnceInv
    <2>7. (Good(AS(toProc[rnd]), InH, AS(results[rnd]), InC, AS(yielded[rnd]), Upto))'
      <3>1. Good(AS(toProc[rnd]), InH', AS(results'[rnd]), InC, AS(yielded[rnd]), Upto)
        BY <2>1, <2>3, <2>5, <1>g DEF Good, Disj5
      <3> QED BY <3>1, <2>0, <1>c, <1>0
    <2>8. (NoDupA(toProc[rnd]) /\ NoDupA(results[rnd]))'
      BY <2>0, <2>3, <1>0 DEF OnceInv
    <2> QED BY <1>0, <1>c, <1>d, <2>6, <2>7, <2>8 DEF OnceInv
  <1>5. CASE w[1] = rnd /\ WFwd(w)
    <2>0. /\ wpc[w] = "fwd" /\ toProc' = toProc /\ witem' = witem
          /\ results' = [results EXCEPT ![rnd] = Append(@, SENT)]
          /\ wpc' = [wpc EXCEPT ![w] = "exit"]
      BY <1>5 DEF WFwd
    <2>1. results'[rnd] = Append(results[rnd], 0)
      BY <2>0, <1>t DEF SENT
    <2>2. AS(results'[rnd]) = AS(results[rnd]) /\ NoDupA(results'[rnd])
      BY <2>1, <1>t, AppendAS DEF OnceInv
    <2>3. HeldNow' = HeldNow
      <3>1. \A v \in Ws(rnd) : v # w => (Held(v)' <=> Held(v))
        BY <1>0 DEF Held, Ws
      <3>2. ~Held(w)' /\ ~Held(w)
        BY <2>0, <1>w DEF Held
      <3> QED BY <3>1, <3>2, <1>0 DEF HeldNow
    <2>4. InH' = InH
      BY <2>3, <2>0 DEF InH
    <2>5. (\A u, v \in HeldNow : u # v => Abs(witem[u]) # Abs(witem[v]))' /\ (\A v \in HeldNow : witem[v] # 0)'
      BY <2>3, <2>0 DEF OnceInv
    <2>6. (Good(AS(toProc[rnd]), InH, AS(results[rnd]), InC, AS(yielded[rnd]), Upto))'
      BY <2>2, <2>4, <2>0, <1>c, <1>g, <1>0
    <2>7. (NoDupA(toProc[rnd]) /\ NoDupA(results[rnd]))'
      BY <2>0, <2>2, <1>0 DEF OnceInv
    <2> QED BY <1>0, <1>c, <1>d, <2>5, <2>6, <2>7 DEF OnceInv
  <1> QED BY <1>1, <1>2, <1>3, <1>4, <1>5 DEF Worker

LEMMA NextOnce == OnceInv /\ Inv /\ Inv' /\ [Next]_vars => OnceInv'
  <1> SUFFICES ASSUME OnceInv, Inv, Inv', [Next]_vars PROVE OnceInv'
    OBVIOUS
  <1>1. CASE Consumer
    BY <1>1, NextOnceConsumer
  <1>2. CASE \E w \in W : Worker(w)
    BY <1>2, NextOnceWorker
  <1>3. CASE Finished \/ UNCHANGED vars
    BY <1>3 DEF Finished, vars, OnceInv, HeldNow, Held, InH, InC, Upto, Ws
  <1> QED BY <1>1, <1>2, <1>3 DEF Next

AtMostOnce == \A r \in Round : NoDup(yielded[r]) /\ SeqToSet(yielded[r]) \subseteq 1..N

LEMMA OnceImplies == OnceInv /\ Inv => AtMostOnce
  <1> SUFFICES ASSUME OnceInv, Inv, NEW r \in Round PROVE NoDup(yielded[r]) /\ SeqToSet(yielded[r]) \subseteq 1..N
    BY DEF AtMostOnce
  <1> USE ConstAssump, RoundProps
  <1>0. rnd \in Round /\ yielded[r] \in Seq(Int)
    BY DEF Inv
  <1>1. NoDupA(yielded[r]) /\ AS(yielded[r]) \subseteq 1..N /\ \A i \in 1..Len(yielded[r]) : yielded[r][i] > 0
    <2>1. CASE r < rnd
      BY <2>1 DEF OnceInv
    <2>2. CASE r = rnd
      BY <2>2 DEF OnceInv, Good, Upto
    <2>3. CASE r > rnd
      BY <2>3, EmptyAS, EmptySeq DEF OnceInv
    <2> QED BY <2>1, <2>2, <2>3, <1>0 DEF Round
  <1>2. \A i \in 1..Len(yielded[r]) : yielded[r][i] \in Int /\ yielded[r][i] # 0 /\ Abs(yielded[r][i]) = yielded[r][i]
    BY <1>0, <1>1, ElementOfSeq, AbsProps
  <1>3. NoDup(yielded[r])
    BY <1>1, <1>2 DEF NoDup, NoDupA
  <1>4. SeqToSet(yielded[r]) \subseteq 1..N
    <2> SUFFICES ASSUME NEW i \in 1..Len(yielded[r]) PROVE yielded[r][i] \in 1..N
      BY DEF SeqToSet
    <2>1. Abs(yielded[r][i]) \in AS(yielded[r])
      BY <1>2 DEF AS
    <2> QED BY <2>1, <1>1, <1>2
  <1> QED BY <1>3, <1>4

THEOREM AtMostOnceForAllInputs == Spec => []AtMostOnce
  <1>1. Spec => []Inv
    BY InitInv, NextInv, PTL DEF Spec
  <1>2. Spec => [](Inv /\ OnceInv)
    BY <1>1, InitInv, InitOnce, NextInv, NextOnce, PTL DEF Spec
  <1> QED BY <1>2, OnceImplies, PTL
===============================================================================
