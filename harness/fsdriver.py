"""Driver executed under strace by fsrec.record(): replays API-level histories on real datasets and emits
markers around every API call.  usage: python -m harness.fsdriver <jobs.json> <out_dir>"""
from __future__ import annotations

import json
import shutil
import sys
from pathlib import Path

from . import dsreal
from .fsrec import mark


def main() -> int:
    jobs = json.loads(Path(sys.argv[1]).read_text())
    out_dir = Path(sys.argv[2])
    results = []
    for j, job in enumerate(jobs):
        root = out_dir / "roots" / f"job{j}"
        if root.parent.exists():
            shutil.rmtree(root.parent, ignore_errors=True)
        root.parent.mkdir(parents=True)
        rp = dsreal.Replayer(root, job["fmt"], job.get("compression", ""), eps=job.get("eps", 2),
                             hashes=tuple(job.get("hashes", ("sha256",))),
                             single_process=job.get("single_process", True))
        mark({"ev": "job", "job": j, "root": str(root)})
        res = {"job": j, "failed": None, "steps": 0}
        try:
            for i, (nm, args) in enumerate(job["labels"]):
                args = tuple(tuple(a) if isinstance(a, list) else a for a in args)
                mark({"ev": "b", "job": j, "i": i, "name": nm, "args": args,
                      "id": rp.next_ex if nm == "Write" else 0})
                try:
                    rp.step(nm, args)
                except dsreal.SessionFailed as exc:
                    mark({"ev": "e", "job": j, "i": i, "name": nm, "fail": str(exc)[:200]})
                    res["failed"] = f"step {i} {nm}: {exc}"
                    break
                last = rp.wlog[-1] if (nm == "Write" and args[0] == 0) else None
                if nm == "MultiAbort":
                    mark({"ev": "e", "job": j, "i": i, "name": nm, "done": list(rp.done)})
                    res["steps"] = i + 1
                    continue
                mark({"ev": "e", "job": j, "i": i, "name": nm, "acc": (last["acc"] if last else None),
                      "wlog": ([{k: v for k, v in w.items() if k != "exc"} for w in rp.wlog]
                               if nm in ("MultiEnd",) else None),
                      "done": list(rp.done)})
                res["steps"] = i + 1
        finally:
            rp.close()
        res["wlog"] = [{k: v for k, v in w.items() if k != "exc"} for w in rp.wlog]
        res["done"] = list(rp.done)
        res["problems"] = rp.problems
        mark({"ev": "jobend", "job": j})
        results.append(res)
        shutil.rmtree(root.parent, ignore_errors=True)
    (out_dir / "results.json").write_text(json.dumps(results))
    return 0


if __name__ == "__main__":
    sys.exit(main())
