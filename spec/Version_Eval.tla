---------------------------- MODULE Version_Eval ----------------------------
EXTENDS Version, TLCExt
VARIABLE idx
Obs == JsonDeserialize(IOEnv.OBS_FILE)    \* [v: <<a,b,c>>, running: <<a,b,c>>, loaded: BOOLEAN]
EInit == idx \in 1..Len(Obs) /\ v = Obs[idx].v
ENext == FALSE /\ UNCHANGED <<v, idx>>
ESpec == EInit /\ [][ENext]_<<v, idx>>
Judge == (Obs[idx].loaded = LexLeq(Obs[idx].v, Obs[idx].running)) \/ PrintT(<<"GATE-WRONG", idx>>)
===============================================================================
