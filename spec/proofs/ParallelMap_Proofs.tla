--------------------------- MODULE ParallelMap_Proofs ---------------------------
(* TLAPS proof that the Rust parallel map never has more than T inputs handed out beyond the results the      *)
(* consumer has received (C14), for EVERY T >= 1, every input length N, every set of panicking items and      *)
(* every drop position (repaired code: Fixed = TRUE).                                                         *)
EXTENDS ParallelMap, SequenceTheorems, TLAPS

ASSUME ConstAssump == T \in Nat /\ T >= 1 /\ N \in Nat /\ Fixed = TRUE

HasNone(s) == \E i \in 1..Len(s) : s[i] = NONE

Inv ==
    /\ nxt \in Nat /\ nxt >= 1
    /\ cst \in {"send", "sendlast"} => Wn >= 1
    /\ out \in Seq(Nat)
    /\ toW \in [W -> Seq(Nat)]
    /\ fromW \in [W -> Seq(Nat)]
    /\ wst \in [W -> {"recv", "run", "exited", "panicked"}]
    /\ witem \in [W -> Nat]
    /\ now \in Nat /\ (Wn >= 1 => now \in W)
    /\ rxalive \in BOOLEAN
    /\ cst \in {"idle", "send", "sendlast", "ended", "raised", "drop", "dropping", "joined"}
    /\ rxalive => \A w \in W : (wst[w] = "exited" \/ HasNone(toW[w])) => nxt > N
    /\ cst = "sendlast" => nxt > N
    /\ rxalive <=> cst \notin {"dropping", "joined"}
    /\ (nxt - 1) - Len(out) <= Wn - (IF cst = "send" THEN 1 ELSE 0)

LEMMA HasNoneAppend ==
    ASSUME NEW s \in Seq(Nat), NEW x \in Nat, HasNone(Append(s, x)), ~HasNone(s)
    PROVE  x = NONE
  <1>1. PICK i \in 1..Len(Append(s, x)) : Append(s, x)[i] = NONE
    BY DEF HasNone
  <1>2. /\ Len(Append(s, x)) = Len(s) + 1
        /\ \A j \in 1..Len(s) : Append(s, x)[j] = s[j]
        /\ Append(s, x)[Len(s) + 1] = x
    BY AppendProperties
  <1>3. i = Len(s) + 1
    BY <1>1, <1>2, LenProperties DEF HasNone
  <1> QED BY <1>1, <1>2, <1>3

LEMMA WnProps == Wn \in Nat /\ Wn <= T /\ Wn <= N
  BY ConstAssump DEF Wn

LEMMA InitInv == Init => Inv
  <1> SUFFICES ASSUME Init PROVE Inv
    OBVIOUS
  <1> USE ConstAssump, WnProps
  <1>1. \A w \in W : <<w>> \in Seq(Nat) /\ ~HasNone(<<w>>)
    BY DEF W, HasNone, NONE
  <1>2. <<>> \in Seq(Nat) /\ Len(<<>>) = 0
    BY EmptySeq
  <1> QED BY <1>1, <1>2 DEF Init, Inv, W

LEMMA NextInv == Inv /\ [Next]_vars => Inv'
  <1> SUFFICES ASSUME Inv, [Next]_vars PROVE Inv'
    OBVIOUS
  <1> USE ConstAssump, WnProps
  <1>1. CASE CRecv
    <2>1. CASE Wn = 0
      BY <1>1, <2>1 DEF CRecv, Inv
    <2>2. CASE Wn # 0 /\ fromW[now] # <<>> /\ out' = Append(out, Head(fromW[now]))
                   /\ fromW' = [fromW EXCEPT ![now] = Tail(@)] /\ cst' = "send"
      <3>0. now \in W /\ fromW[now] \in Seq(Nat)
        BY <2>2 DEF Inv
      <3>1. Head(fromW[now]) \in Nat /\ Tail(fromW[now]) \in Seq(Nat)
        BY <3>0, <2>2, HeadTailProperties
      <3>2. out' \in Seq(Nat) /\ Len(out') = Len(out) + 1
        BY <2>2, <3>1, AppendProperties DEF Inv
      <3>3. fromW' \in [W -> Seq(Nat)]
        BY <2>2, <3>0, <3>1 DEF Inv
      <3> QED BY <1>1, <2>2, <3>2, <3>3, LenProperties DEF CRecv, Inv
    <2>3. CASE Wn # 0 /\ fromW[now] = <<>> /\ Gone(now)
                   /\ cst' = (IF Fixed /\ wst[now] = "panicked" THEN "raised" ELSE "sendlast")
                   /\ fromW' = fromW /\ out' = out
      <3>0. now \in W /\ cst = "idle" /\ rxalive' = rxalive
        BY <1>1, <2>3 DEF Inv, CRecv
      <3>1. cst' = "sendlast" => nxt > N
        <4>1. CASE wst[now] = "panicked"
          BY <4>1, <2>3
        <4>2. CASE wst[now] # "panicked"
          <5>1. wst[now] = "exited"
            BY <4>2, <2>3 DEF Gone
          <5>2. CASE rxalive
            BY <5>1, <5>2, <3>0 DEF Inv
          <5>3. CASE ~rxalive
            \* the receiving ends are only given up by CDrop, after which the consumer is never idle again
            BY <5>3, <3>0 DEF Inv
          <5> QED BY <5>2, <5>3
        <4> QED BY <4>1, <4>2
      <3>2. UNCHANGED <<nxt, toW, wst, witem, now, rxalive, out, fromW, Panics, DropAfter>>
        BY <1>1, <2>3 DEF CRecv
      <3>3. cst' \in {"raised", "sendlast"}
        BY <2>3
      <3>4. Wn >= 1
        BY <2>3
      <3> QED BY <3>0, <3>1, <3>2, <3>3, <3>4 DEF Inv
    <2>4. Wn # 0 => \/ /\ fromW[now] # <<>> /\ out' = Append(out, Head(fromW[now]))
                        /\ fromW' = [fromW EXCEPT ![now] = Tail(@)] /\ cst' = "send"
                     \/ /\ fromW[now] = <<>> /\ Gone(now)
                        /\ cst' = (IF Fixed /\ wst[now] = "panicked" THEN "raised" ELSE "sendlast")
                        /\ fromW' = fromW /\ out' = out
      BY <1>1 DEF CRecv
    <2> QED BY <2>1, <2>2, <2>3, <2>4
  <1>2. CASE CSend
    <2>0. now \in W /\ toW[now] \in Seq(Nat) /\ NextItem \in Nat
      BY <1>2 DEF CSend, Inv, NextItem, NONE, Wn, W
    <2>1. toW' \in [W -> Seq(Nat)]
      BY <1>2, <2>0, AppendProperties DEF CSend, Inv
    <2>2. now' \in Nat /\ (Wn >= 1 => now' \in W)
      BY <1>2, <2>0 DEF CSend, Inv, W
    <2>3. nxt' \in Nat /\ nxt' >= nxt /\ nxt' <= nxt + 1 /\ (nxt > N => nxt' = nxt)
      BY <1>2 DEF CSend, Inv
    <2>4. ASSUME rxalive', NEW w \in W, wst'[w] = "exited" \/ HasNone(toW'[w]) PROVE nxt' > N
      <3>0. wst' = wst /\ rxalive' = rxalive /\ toW' = [toW EXCEPT ![now] = Append(@, NextItem)]
            /\ toW \in [W -> Seq(Nat)] /\ rxalive
        BY <1>2, <2>4 DEF CSend, Inv
      <3>1. CASE w # now
        <4>1. toW'[w] = toW[w] /\ wst'[w] = wst[w]
          BY <3>0, <3>1, <2>0
        <4>2. wst[w] = "exited" \/ HasNone(toW[w])
          BY <4>1, <2>4
        <4>3. nxt > N
          BY <4>2, <3>0 DEF Inv
        <4> QED BY <4>3, <2>3
      <3>2. CASE w = now /\ (wst[w] = "exited" \/ HasNone(toW[w]))
        <4>3. nxt > N
          BY <3>2, <3>0 DEF Inv
        <4> QED BY <4>3, <2>3
      <3>3. CASE w = now /\ ~(wst[w] = "exited" \/ HasNone(toW[w]))
        <4>0. toW'[now] = Append(toW[now], NextItem) /\ wst'[now] = wst[now]
          BY <3>0, <2>0
        <4>1a. wst'[w] # "exited"
          BY <4>0, <3>3
        <4>1b. HasNone(toW'[w])
          BY <4>1a, <2>4
        <4>1. HasNone(Append(toW[now], NextItem))
          BY <4>1b, <4>0, <3>3
        <4>2. NextItem = NONE
          BY <4>1, <3>3, <2>0, HasNoneAppend
        <4> QED BY <4>2, <2>3 DEF NextItem, NONE, Inv
      <3> QED BY <3>1, <3>2, <3>3
    <2>5. (nxt' - 1) - Len(out') <= Wn - (IF cst' = "send" THEN 1 ELSE 0)
      BY <1>2, <2>3 DEF CSend, Inv
    <2>6. cst' # "send" /\ cst' # "sendlast" /\ cst' \notin {"dropping", "joined"}
      BY <1>2 DEF CSend
    <2> QED BY <1>2, <2>1, <2>2, <2>3, <2>4, <2>5, <2>6 DEF CSend, Inv
  <1>3. CASE CDrop
    <2>1. toW' \in [W -> Seq(Nat)]
      BY <1>3, AppendProperties DEF CDrop, Inv, NONE
    <2> QED BY <1>3, <2>1 DEF CDrop, Inv
  <1>4. CASE CJoin
    BY <1>4 DEF CJoin, Inv
  <1>5. ASSUME NEW w \in W, WRecv(w) PROVE Inv'
    <2>0. toW[w] \in Seq(Nat) /\ toW[w] # <<>>
      BY <1>5 DEF WRecv, Inv
    <2>1. Tail(toW[w]) \in Seq(Nat) /\ Head(toW[w]) \in Nat /\ Len(Tail(toW[w])) = Len(toW[w]) - 1
          /\ \A i \in 1..Len(Tail(toW[w])) : Tail(toW[w])[i] = toW[w][i + 1]
      BY <2>0, HeadTailProperties
    <2>2. toW' \in [W -> Seq(Nat)]
      BY <1>5, <2>1 DEF WRecv, Inv
    <2>3. wst' \in [W -> {"recv", "run", "exited", "panicked"}] /\ witem' \in [W -> Nat]
      BY <1>5, <2>1 DEF WRecv, Inv
    <2>4. HasNone(Tail(toW[w])) => HasNone(toW[w])
      BY <2>0, <2>1, LenProperties DEF HasNone
    <2>5. Head(toW[w]) = NONE => HasNone(toW[w])
      BY <2>0, HeadTailProperties, LenProperties, EmptySeq DEF HasNone
    <2>6. ASSUME rxalive', NEW v \in W, wst'[v] = "exited" \/ HasNone(toW'[v]) PROVE nxt' > N
      <3>1. CASE v # w
        BY <1>5, <2>6, <3>1 DEF WRecv, Inv
      <3>2. CASE v = w
        <4>1. wst[w] = "recv" /\ toW'[w] = Tail(toW[w]) /\ nxt' = nxt /\ rxalive' = rxalive
          BY <1>5 DEF WRecv, Inv
        <4>2. HasNone(toW[w])
          BY <1>5, <2>6, <3>2, <4>1, <2>4, <2>5 DEF WRecv, Inv
        <4> QED BY <4>1, <4>2, <2>6 DEF Inv
      <3> QED BY <3>1, <3>2
    <2> QED BY <1>5, <2>2, <2>3, <2>6 DEF WRecv, Inv
  <1>6. ASSUME NEW w \in W, WRun(w) PROVE Inv'
    <2>0. wst[w] = "run" /\ toW' = toW /\ nxt' = nxt /\ rxalive' = rxalive /\ out' = out /\ cst' = cst /\ now' = now
      BY <1>6 DEF WRun
    <2>1. witem[w] \in Panics \/ rxalive \/ ~rxalive
      OBVIOUS
    <2>2. wst' \in [W -> {"recv", "run", "exited", "panicked"}]
      BY <1>6 DEF WRun, Inv
    <2>3. fromW' \in [W -> Seq(Nat)] /\ witem' = witem
      <3>1. witem[w] \in Nat /\ fromW[w] \in Seq(Nat)
        BY DEF Inv
      <3>2. Append(fromW[w], witem[w]) \in Seq(Nat)
        BY <3>1, AppendProperties
      <3> QED BY <1>6, <3>2 DEF WRun, Inv
    <2>4. ASSUME rxalive', NEW v \in W, wst'[v] = "exited" \/ HasNone(toW'[v]) PROVE nxt' > N
      <3>1. CASE v # w
        BY <1>6, <2>0, <2>4, <3>1 DEF WRun, Inv
      <3>2. CASE v = w
        <4>1. wst'[w] = "exited" => ~rxalive
          BY <1>6, <2>0 DEF WRun, Inv
        <4> QED BY <1>6, <2>0, <2>4, <3>2, <4>1 DEF WRun, Inv
      <3> QED BY <3>1, <3>2
    <2> QED BY <2>0, <2>2, <2>3, <2>4 DEF Inv
  <1>7. CASE Finished
    BY <1>7 DEF Finished, Inv, vars
  <1>8. CASE UNCHANGED vars
    BY <1>8 DEF Inv, vars
  <1> QED BY <1>1, <1>2, <1>3, <1>4, <1>5, <1>6, <1>7, <1>8 DEF Next, Consumer, Worker

THEOREM ReadAheadForAllInputs == Spec => []ReadAhead
  <1>1. Spec => []Inv
    BY InitInv, NextInv, PTL DEF Spec
  <1>2. Inv => ReadAhead
    BY ConstAssump, WnProps DEF Inv, ReadAhead
  <1> QED BY <1>1, <1>2, PTL
===============================================================================
