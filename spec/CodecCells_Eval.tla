--------------------------- MODULE CodecCells_Eval ---------------------------
(* Judges the execution of a cell on the real code: a value that was accepted by the writer must come back     *)
(* bit-identical in the declared shape and with the dtype class the format's typing rule prescribes.          *)
EXTENDS CodecCells, Json, IOUtils, TLCExt
VARIABLE idx
Obs == JsonDeserialize(IOEnv.OBS_FILE)   \* [fmt, rel, accepted, read, equal, shape_ok, rtype]
EInit == idx \in 1..Len(Obs) /\ fmt = Obs[idx].fmt /\ rel = Obs[idx].rel /\ shape = <<>> /\ order = "C"
         /\ bo = "native"
ENext == FALSE /\ UNCHANGED <<vars, idx>>
ESpec == EInit /\ [][ENext]_<<vars, idx>>
TypeOk == \/ Obs[idx].rtype = ReturnedType
          \/ (fmt = "npz" /\ Obs[idx].rtype \in {"declared", "as_presented"})
          \/ (fmt = "tfrec" /\ Obs[idx].rtype \in {"widened", "declared"})     \* float32 / float16 stay as declared
Holds == Obs[idx].accepted => (Obs[idx].read /\ Obs[idx].equal /\ Obs[idx].shape_ok /\ TypeOk)
Judge == Holds \/ PrintT(<<"CELL-FAILS", idx>>)
===============================================================================
