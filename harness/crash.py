"""Crash-state judging for C06/C09: every prefix of the recorded file-system effects of a job (plus torn
variants of each write) is materialised, projected and handed to Dataset_Eval; the real reader is run on it."""
from __future__ import annotations

import re
import shutil
import tempfile
import traceback
from pathlib import Path

import numpy as np

from . import dsreal, fsrec


def split_jobs(events):
    """-> {job: {"root": str, "events": [...]}} (events between the job marker and its jobend marker)."""
    jobs, cur = {}, None
    for e in events:
        if e["k"] == "mark" and e.get("ev") == "job":
            cur = e["job"]
            jobs[cur] = {"root": e["root"], "events": []}
            continue
        if e["k"] == "mark" and e.get("ev") == "jobend":
            cur = None
            continue
        if cur is not None:
            jobs[cur]["events"].append(e)
    return jobs


def _reader(root: Path):
    """Real reader on a (possibly crashed) directory: {split: [ids]} or raises."""
    from sedpack.io import Dataset
    ds = Dataset(root)
    out = {}
    for split in list(ds._dataset_info.splits):  # pylint: disable=protected-access
        ids = []
        for ex in ds.as_numpy_iterator(split=split, shuffle=0, repeat=False):
            ids.append(int(np.asarray(ex["id"]).reshape(-1)[0]))
        out[split] = ids
    return out


def strip(c):
    """Mirror of Strip in Dataset_Trace.tla: contents up to the names of shard files."""
    if c == [] or not isinstance(c, dict) or "kind" not in c:
        return c
    if c["kind"] == "list":
        return {"kind": "list", "n": c["n"],
                "shards": [{"n": e["n"], "md": e["md"], "sum": e["sum"]} for e in c["shards"]],
                "children": [{"dir": e["dir"], "n": e["n"], "nsh": e["nsh"], "sum": strip(e["sum"])}
                             for e in c["children"]]}
    if c["kind"] == "info":
        return {"kind": "info", "splits": {s: {"n": e["n"], "nsh": e["nsh"], "sum": strip(e["sum"])}
                                            for s, e in c["splits"].items()}}
    return c


def classify(rel: tuple) -> str:
    name = rel[-1]
    if name == "dataset_info.json":
        return "info"
    if name == "shards_list.json":
        return "list"
    if name.startswith("update_") and name.endswith("_of_dataset_info.json"):
        return "tmp_info"
    if name.startswith("update_") and name.endswith("_of_shards_list.json"):
        return "tmp_list"
    if name.endswith(dsreal.EXT):
        return "shard"
    return "other"


def _continue_after_crash(src: Path, dst: Path, fmt: str, sub: str, first_id: int):
    """A new process finds the directory as the crash left it and writes one more session. Returns (ids written,
    read-back) or raises."""
    from sedpack.io import Dataset
    from sedpack.io.dataset_filler import DatasetFiller
    if dst.exists():
        shutil.rmtree(dst)
    shutil.copytree(src, dst)
    ds = Dataset(dst)
    ids = [first_id, first_id + 1, first_id + 2]
    with DatasetFiller(ds, relative_path_from_split=Path(sub) if sub else Path(".")) as f:
        for i in ids:
            f.write_example(values=dsreal.example(i), split="train")
    return ids, _reader(dst)


def judge_job(arg: dict) -> dict:
    """arg: {root, events (with bytes data), fmt, compression, hashes, torn, reader_every}. Worker process."""
    out = {"states": [], "problems": [], "n_effects": 0, "n_torn": 0, "error": None, "pids": {}, "paths_by_pid": {},
           "trace": []}
    trace = out["trace"]
    cur_w, nwrites, fdir = {}, {}, []
    e_args_of_abort = {}
    multi = {"k": 0, "done": 0}
    tmp = Path(tempfile.mkdtemp(prefix="verif_crash_"))
    try:
        mat = fsrec.Materialiser(arg["root"], tmp / "d")
        proj = dsreal.Projector(arg["fmt"], arg.get("compression", ""), tuple(arg.get("hashes", ("sha256",))))
        wlog, done = {}, []
        snaps = []
        nsess = 0
        k = 0

        def observe(tag):
            files = proj.project(mat.scratch)
            cfiles, _, _ = dsreal.canonical(files)
            st = {"files": dsreal.files_to_json(cfiles), "mem": {"none": True},
                  "wlog": [wlog[i] for i in sorted(wlog)], "done": list(done), "checks": ["C06"], "point": tag}
            if (mat.scratch / "dataset_info.json").exists() and (len(out["states"]) % arg.get("reader_every", 1) == 0):
                try:
                    st["readback"] = _reader(mat.scratch)
                    st["checks"] = ["C06", "R06"]
                except Exception as exc:  # pylint: disable=broad-except
                    out["problems"].append(("reader-raised", f"crash point {tag}: opening / iterating the dataset "
                                            f"raised {type(exc).__name__}: {str(exc)[:300]}", tag))
            out["states"].append(st)
            # a SLOW reader: it read the metadata some effects ago and reads the shard files only now (the reader's
            # steps ReaderStart / ReaderList ... ReaderShard of Dataset.tla with writer effects in between): the
            # metadata files of an earlier instant are laid over the current directory and the real reader runs
            se = arg.get("slow_every", 0)
            if se and (mat.scratch / "dataset_info.json").exists():
                snaps.append((tag, list(done), {p.relative_to(mat.scratch): p.read_bytes()
                                                for p in mat.scratch.rglob("*.json")}))
                del snaps[:-12]
                lag = (2, 5, 9)[(len(out["states"]) // se) % 3]
                if len(out["states"]) % se == 0 and len(snaps) > lag and "torn" not in snaps[-1 - lag][0]:
                    tag0, done0, meta0 = snaps[-1 - lag]
                    slow = tmp / "slow"
                    if slow.exists():
                        shutil.rmtree(slow)
                    shutil.copytree(mat.scratch, slow)
                    for p in list(slow.rglob("*.json")):
                        if p.relative_to(slow) not in meta0:
                            p.unlink()
                    for rel, data in meta0.items():
                        (slow / rel).parent.mkdir(parents=True, exist_ok=True)
                        (slow / rel).write_bytes(data)
                    what = f"metadata as of '{tag0}', shard files as of '{tag}'"
                    try:
                        rb = _reader(slow)
                        out["states"].append({"files": [], "mem": {"none": True}, "wlog": st["wlog"], "done": done0,
                                              "checks": ["R06"], "readback": rb, "point": "slow reader: " + what})
                        out["n_slow_reads"] = out.get("n_slow_reads", 0) + 1
                    except Exception as exc:  # pylint: disable=broad-except
                        out["problems"].append(("slow-reader-raised", f"a reader with {what} raised "
                                                f"{type(exc).__name__}: {str(exc)[:300]}", tag))
            # recovery: every m-th crash state is handed to a "new process" that writes one more session into it
            m = arg.get("recover_every", 0)
            if m and (mat.scratch / "dataset_info.json").exists() and len(out["states"]) % m == 0:
                sub = ("", "s", "s/t")[(len(out["states"]) // m) % 3]
                try:
                    ids, rb = _continue_after_crash(mat.scratch, tmp / "recover", arg["fmt"], sub,
                                                    9000 + 10 * len(out["states"]))
                    rst = {"files": [], "mem": {"none": True},
                           "wlog": st["wlog"] + [{"id": i, "sess": 999, "pid": 0, "split": "train", "md": "None",
                                                  "kind": "good", "acc": True} for i in ids],
                           "done": list(done) + [999], "checks": ["R06"], "readback": rb,
                           "point": tag + f" + recovery session in '{sub or '.'}'"}
                    out["states"].append(rst)
                    out["n_recovered"] = out.get("n_recovered", 0) + 1
                except Exception as exc:  # pylint: disable=broad-except
                    out["problems"].append(("recovery-session-failed", f"crash point {tag}: a new session after the "
                                            f"crash (sub-directory '{sub or '.'}') raised {type(exc).__name__}: "
                                            f"{str(exc)[:200]}", tag))

        idmap = {}

        def renum(c):
            if isinstance(c, dict):
                return {k: ([idmap.get(x, x) for x in v] if k == "ex" and isinstance(v, list) else renum(v))
                        for k, v in c.items()}
            if isinstance(c, list):
                return [renum(x) for x in c]
            return c

        def api(name, **kw):
            d = {"k": "api", "name": name, "dir": [], "split": "", "md": "", "kind": "", "K": 0}
            d.update(kw)
            trace.append(d)

        for e in arg["events"]:
            if e["k"] == "mark":
                ev = e.get("ev")
                nm = e.get("name")
                if "job" in e:
                    out["main_pid"] = e["pid"]
                if "job" in e:  # markers of the main process
                    if ev == "b":
                        if nm in ("BeginFiller", "MultiBegin"):
                            nsess += 1
                        if nm == "Create":
                            api("Create")
                        elif nm == "Open":
                            api("Open")
                        elif nm == "BeginFiller":
                            fdir[:] = list(e["args"][0])
                            api("BeginFiller", dir=list(fdir))
                        elif nm == "MultiBegin":
                            multi["k"], multi["done"] = e["args"][0], 0
                            multi["abort"] = False
                            api("MultiBegin", K=e["args"][0])
                        elif nm == "MultiAbort":
                            multi["abort"] = True      # the call is going to fail: the parent never merges
                            e_args_of_abort["j"] = e["args"][0]
                        elif nm == "ExitFiller" and e["args"][0] == 0:
                            api("ExitFiller", dir=list(fdir))
                        elif nm == "Write" and e["args"][0] == 0:
                            p, split, md, kind = e["args"]
                            wlog[e["id"]] = {"id": e["id"], "sess": nsess, "pid": 0, "split": split, "md": md,
                                             "kind": kind, "acc": True}  # in flight: accepted-or-in-progress
                            idmap[e["id"]] = len(idmap) + 1
                            api("Write", dir=list(fdir), split=split, md=md, kind=kind)
                    elif ev == "e":
                        if nm == "Write" and e.get("acc") is not None:
                            i = max(wlog)
                            wlog[i]["acc"] = bool(e["acc"])
                            trace.append({"k": "ack", "id": idmap[i], "acc": bool(e["acc"])})
                        if nm == "ExitFiller" and e.get("done") is not None and not e.get("fail"):
                            if trace and trace[-1].get("name") != "SessionDone" and fdir is not None:
                                pass
                        if nm == "ExitFiller" and "acc" in e and e.get("done") is not None:
                            # __exit__ of the main filler returned
                            if len(e["done"]) > len(done):
                                api("SessionDone")
                        if nm == "MultiEnd" and not e.get("fail"):
                            api("MultiDone")
                        if nm == "MultiAbort":
                            api("MultiAbort", K=e_args_of_abort.get("j", 1))
                            out["aborted"] = out.get("aborted", 0) + 1
                            multi["k"] = 0
                        if e.get("done") is not None:
                            done[:] = e["done"]
                else:  # markers of a multi-writer worker (possibly the same process when single_process)
                    if ev == "wb":
                        cur_w[e["pid"]] = [e["dir"]]
                    elif ev == "b" and nm == "Write":
                        w = e["w"]
                        pid = int(re.search(r"(\d+)$", w).group(1)) if re.search(r"(\d+)$", w) else 1
                        wlog[e["id"]] = {"id": e["id"], "sess": nsess, "pid": pid, "split": e["split"],
                                         "md": e["md"], "kind": e["kind"], "acc": True}
                        idmap[e["id"]] = len(idmap) + 1
                        api("Write", dir=[w], split=e["split"], md=e["md"], kind=e["kind"])
                    elif ev == "e" and nm == "Write":
                        wlog[e["id"]]["acc"] = bool(e["acc"])
                        trace.append({"k": "ack", "id": idmap[e["id"]], "acc": bool(e["acc"])})
                    elif ev == "wx":
                        api("ExitFiller", dir=[e["dir"]])
                    elif ev == "we":
                        cur_w.pop(e["pid"], None)
                        multi["done"] += 1
                        if multi["done"] == multi["k"] and not multi.get("abort"):
                            api("MultiEnd")
                continue
            if not mat.relevant(e):
                continue
            if multi["k"] and multi["done"] < multi["k"] and e["pid"] not in cur_w and cur_w \
                    and e["op"] in ("open", "write", "rename", "trunc", "unlink"):
                out.setdefault("parent_early", []).append(e["p"][len(arg["root"]):])
            # which process touches which path (C09)
            if e["op"] in ("open", "write", "rename", "trunc", "unlink"):
                rel = e["p"][len(arg["root"]):]
                out["paths_by_pid"].setdefault(rel, set()).add(e["pid"])
                if e["op"] == "rename":
                    out["paths_by_pid"].setdefault(e["q"][len(arg["root"]):], set()).add(e["pid"])
            k += 1
            rel = tuple(Path(e["p"]).relative_to(arg["root"]).parts) if mat.inside(e["p"]) else ("?",)
            w = cur_w.get(e["pid"], [])
            base = {"k": "fs", "w": list(w), "cls": classify(rel) if rel else "other", "dir": list(rel[:-1]),
                    "c": [], "qcls": ""}
            if e["op"] == "open":
                nwrites[e["p"]] = 0
                trace.append(dict(base, op="create"))
            elif e["op"] == "write":
                if nwrites.get(e["p"], 0) == 0:
                    trace.append(dict(base, op="wpart"))
                nwrites[e["p"]] = nwrites.get(e["p"], 0) + 1
            elif e["op"] == "rename":
                relq = tuple(Path(e["q"]).relative_to(arg["root"]).parts)
                trace.append(dict(base, op="rename", qcls=classify(relq)))
            elif e["op"] in ("unlink", "trunc"):
                trace.append(dict(base, op=e["op"]))
            if e["op"] == "close":
                mat.apply(e)
                if nwrites.pop(e["p"], 0) > 0:
                    data = mat.map(e["p"]).read_bytes() if mat.map(e["p"]).exists() else b""
                    cls = base["cls"]
                    if cls in ("list", "tmp_list"):
                        c = proj._abstract_list(data)  # pylint: disable=protected-access
                    elif cls in ("info", "tmp_info"):
                        c = proj._abstract_info(data)  # pylint: disable=protected-access
                    elif cls == "shard":
                        ids = dsreal.decode_shard(mat.map(e["p"]), arg["fmt"], arg.get("compression", ""))
                        c = dsreal.TORN if ids is None else {"kind": "shard", "ex": ids}
                    else:
                        c = {"kind": "other"}
                    trace.append(dict(base, op="wfull", c=renum(strip(c))))
                continue
            if e["op"] == "write" and arg.get("torn", 0) and len(e["data"]) > 1:
                n = len(e["data"])
                cuts = sorted({max(1, min(n - 1, round(n * f / (arg["torn"] + 1)))) for f in range(1, arg["torn"] + 1)})
                for j in cuts:
                    mat.apply(e, partial=j)
                    out["n_torn"] += 1
                    observe(f"effect {k} ({e['op']} {e['p'][len(arg['root']):]}) torn after {j} of {n} bytes")
            mat.apply(e)
            out["n_effects"] += 1
            observe(f"effect {k} ({e['op']} {e['p'][len(arg['root']):]})")
        out["paths_by_pid"] = {p: sorted(v) for p, v in out["paths_by_pid"].items()}
        if arg.get("final_checks") and out["states"]:
            files = proj.project(mat.scratch)
            cfiles, _, _ = dsreal.canonical(files)
            info = cfiles.get(("info",))
            st = dict(out["states"][-1])
            st["files"] = dsreal.files_to_json(cfiles)
            st["mem"] = info["splits"] if isinstance(info, dict) and info.get("kind") == "info" else {"none": True}
            st["checks"] = list(arg["final_checks"])
            st["aborted"] = out.get("aborted", 0)
            st["wlog"] = [wlog[i] for i in sorted(wlog)]
            st["done"] = list(done)
            st["point"] = "final state"
            try:
                st["readback"] = _reader(mat.scratch)
            except Exception as exc:  # pylint: disable=broad-except
                out["problems"].append(("reader-raised", f"final state: {type(exc).__name__}: {str(exc)[:300]}",
                                        "final"))
            out["final"] = st
    except Exception:  # pylint: disable=broad-except
        out["error"] = traceback.format_exc()
    finally:
        shutil.rmtree(tmp, ignore_errors=True)
    return out
