"""C02 - exactly-once delivery: one pass yields precisely the split's examples.

Decided by the stage specifications ShuffleBuffer.tla, RoundRobin.tla, BatchMap.tla (BagPreserving / Complete),
LazyPool.tla (ExactlyOnce) and ParallelMap.tla (Order), each model checked over all index choices / schedules for
small constants and bound to the real generators (TLC behaviours imposed through scripted randomness; pull/yield
logs validated by TLC); the composition is checked end to end: datasets built from multi-split / nested /
multi-writer histories are read with repeat=False through every interface for shuffle in {0,1,2,>N} and
file_parallelism in {1,2,>shards}, and TLC (Reads_Eval) judges yielded bag = committed bag."""
from . import _readfamily as R
from .. import lazydrive as LD
from ..core import MachineryError

LEVEL = "model_checking"


def run(ctx):
    ctx.assumptions += ["thread timings of ThreadPoolExecutor, tf.data and asyncio internals are sampled, not "
                        "enumerated; LazyPool and the Rust map get exhaustive small-schedule coverage in C13 / C15",
                        "stage models are exhaustive for sources of length <= 7 and buffers <= 4; the shuffle buffer's bag "
                        "invariant is additionally proved for all lengths and buffer sizes (finite source)"]
    budget = 25 if ctx.quick else 400
    # the bag invariant of the shuffle buffer for EVERY source length and buffer size (proof system; the proof module
    # extends the specification that TLC checks and that the scripted-randomness replay binds to the code)
    from .. import tlaps
    import concurrent.futures as cf
    ex = cf.ThreadPoolExecutor(max_workers=1)
    proof = ex.submit(tlaps.prove, ctx, "ShuffleBuffer_BagProofs", ["BagPreservingForAllSources"])
    obs = R.stage_shuffle(ctx, budget)
    obs += R.stage_round_robin(ctx, budget)
    R.stage_batchmap_model(ctx)
    proof.result()
    ex.shutdown()
    # the lazy pool and the Rust map feed this property too: their exactly-once invariants on two configurations
    for T, N in ((2, 5), (3, 3)):
        res = LD.model_check(ctx, f"lp_T{T}N{N}", LD.cfg_constants(T, N), liveness=False, workers=4)
        ctx.add_tlc(f"LazyPool:T{T}N{N}", res)
        if not res.ok:
            raise MachineryError(f"LazyPool.tla violates {res.violated}")
    n_false = R.judge_obs(ctx, obs, "C02")
    ctx.log(f"stage level: {len(obs)} complete runs of the real generators judged by TLC ({n_false} false); "
            f"{ctx.cov.get('shuffle_behaviours_replayed', 0) + ctx.cov.get('round_robin_behaviours_replayed', 0)} "
            f"TLC behaviours imposed, {ctx.cov.get('traces_validated_against_impl', 0)} followed / validated")
    configs = []
    ifaces = ["numpy", "concurrent", "async", "rust", "tfdata"]
    for iface in ifaces:
        for shuffle in (0, 1, 2, "big"):
            for fp in (1, 2, "many"):
                if iface == "numpy" and fp != 1:
                    continue
                if ctx.quick and iface == "tfdata" and (shuffle, fp) not in ((0, 1), (2, 2), ("big", "many")):
                    continue
                configs.append({"iface": iface, "shuffle": shuffle, "fp": fp, "repeat": False})
    configs += [{"iface": i, "shuffle": s, "fp": 2, "repeat": False, "process_record": True}
                for i in ifaces for s in (0, 2)]
    # a consumer that is busy for a while in the middle of a pass (all read-ahead threads idle meanwhile)
    stalled = [{"iface": i, "shuffle": s, "fp": f, "repeat": False, "stall": st}
               for i, s, f, st in (("concurrent", 3, 2, (2, 1.3)), ("concurrent", 0, 2, (5, 1.3)),
                                   ("concurrent", 4, 1, (1, 1.3)), ("rust", 2, 2, (3, 1.3)), ("async", 2, 2, (3, 1.3)),
                                   ("tfdata", 2, 2, (3, 1.3)), ("numpy", 2, 1, (3, 0.3)))]
    R.run_grid(ctx, "C02", "bag", configs, lockstep=ifaces, many_shards_configs=stalled)


def replay(ctx, body):
    o = body["witness"].get("observation")
    if o is None:
        raise MachineryError("replay: re-run ./check C02 (grid witnesses are regenerated from the seed)")
    R.judge_obs(ctx, [o], "C02")
