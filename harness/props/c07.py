"""C07 - unreadable shards surface as errors: never a hang, never silent truncation.

Models: the failure paths of the three parallel pipelines - LazyPool.tla (FaultSurfaces / NoSilentLoss /
Termination with a failing input at every position), ParallelMap.tla (a panicking item never leads to a normal end),
BatchMap.tla (FaultSurfaces) - model checked and bound to the code by failing schedules imposed on the real LazyPool
(deadlocks are proven structurally by the queue shim) and panicking plans imposed on the real Rust parallel_map.
End to end: real datasets with one shard deleted / emptied / overwritten with garbage (first, middle, last) are read
through every interface, shuffle on/off, file_parallelism 1/2, each pass under a watchdog: an exception must reach
the consumer - never a hang, never a normal end that skipped the shard's examples. Whether damaged bytes are
'rejected by the decoder' is decided by calling the third-party decoder directly."""
from __future__ import annotations

import json
import random
import shutil
import tempfile
import traceback
from pathlib import Path

from .. import dshist as H, lazydrive as LD, tlc
from ..core import Ctx, MachineryError
from . import c15

LEVEL = "fault_enumeration"


def damaged_reads(task: dict) -> dict:
    out = {"error": None, "passes": [], "skipped": []}
    tmp = Path(tempfile.mkdtemp(prefix="verif_c07_"))
    try:
        from .. import rustext
        if rustext.SO.exists():
            rustext.preload()
        from sedpack.io import Dataset, Metadata
        from .. import dsreal, readers
        from ._readfamily import _timed
        fmt, comp = task["fmt"], task["compression"]
        ds = Dataset.create(tmp / "d", Metadata(description="c07"), dsreal.structure(fmt, comp, 2, ("md5",)))
        n = task["nshards"] * 2
        with ds.filler() as f:
            for i in range(1, n + 1):
                f.write_example(values=dsreal.example(i), split="train")
        ds = Dataset(tmp / "d")
        paths = [ds.path / s.file_infos[0].file_path for s in ds.shard_info_iterator("train")]
        clean = {p: p.read_bytes() for p in paths}
        pos = {"first": 0, "middle": len(paths) // 2, "last": len(paths) - 1, "only": 0}[task["position"]]
        victim = paths[pos]
        lost = {2 * pos + 1, 2 * pos + 2}
        for damage in task["damages"]:
            if damage == "deleted":
                victim.unlink()
            elif damage == "emptied":
                victim.write_bytes(b"")
            elif damage == "garbage":
                rng = random.Random(task["seed"])
                victim.write_bytes(bytes(rng.randrange(256) for _ in range(len(clean[victim]))))
            elif damage == "zeroed":
                victim.write_bytes(bytes(len(clean[victim])))
            elif damage == "truncated":
                victim.write_bytes(clean[victim][:max(1, len(clean[victim]) // 2)])
            # is this a fault at all?  ask the third-party decoder directly
            # (for the NUL-filled shard the question is put to the codec / decoder the readers rely on: the Python
            # FlatBuffers accessors take a buffer of NULs for a shard without examples, which is then no fault)
            rejected = (damage == "deleted") or (dsreal.decoder_rejects(victim, fmt, comp) if damage == "zeroed"
                                                 else dsreal.decode_shard(victim, fmt, comp) is None)
            if not rejected:
                out["skipped"].append(f"{fmt}/{comp} {damage}: the decoder accepts these bytes (not a fault)")
            else:
                for cfg in task["configs"]:
                    iface = cfg["iface"]
                    if not readers.supports(iface, fmt, comp):
                        continue
                    fresh = Dataset(tmp / "d")
                    if task.get("progress"):
                        # the parent reads this when the whole process freezes (a pass that blocks while holding the
                        # interpreter lock stops the watchdog thread too)
                        with open(task["progress"], "a", encoding="utf-8") as pf:
                            pf.write(json.dumps({"fmt": fmt, "compression": comp, "damage": damage,
                                                 "position": task["position"], "nshards": task["nshards"],
                                                 **cfg}) + "\n")
                    status, val = _timed(lambda: readers.read_ids(fresh, iface, "train", repeat=cfg["repeat"],
                                                                  shuffle=cfg["shuffle"], file_parallelism=cfg["fp"],
                                                                  take=(3 * n if cfg["repeat"] else None)),
                                         timeout=task["watchdog"])
                    p = {"fmt": fmt, "compression": comp, "damage": damage, "position": task["position"],
                         "nshards": task["nshards"], **cfg}
                    if status == "hang":
                        p["outcome"] = "HANG"
                        out["passes"].append(p)
                        return out  # this worker now has stuck threads: stop here
                    if status == "raise":
                        p["outcome"] = "raised:" + type(val).__name__
                    else:
                        got = set(val)
                        p["outcome"] = "ended-without-the-shard" if lost - got else "ended-with-all-examples"
                        p["yielded"] = len(val)
                    out["passes"].append(p)
            if damage == "deleted" or True:
                victim.write_bytes(clean[victim])
    except Exception:  # pylint: disable=broad-except
        out["error"] = traceback.format_exc()
    finally:
        shutil.rmtree(tmp, ignore_errors=True)
    return out


def run(ctx: Ctx) -> None:
    q = ctx.quick
    ctx.assumptions += ["'rejected by the decoder' is decided by the third-party decoder called directly on the damaged "
                        "bytes (an emptied .tfrec is a valid empty record file and is not a fault)",
                        "bounded time = a generous watchdog (60 s per pass, normal passes take milliseconds); for the "
                        "LazyPool a hang is additionally proven structurally (every thread blocked on an empty queue)"]
    # ---------------------------------------------------------------- 1. models of the failure paths
    prefill = {T: LD.measure_prefill(T) for T in (1, 2, 3)}
    n_lp = 0
    for T, N, f in ((1, 3, 1), (1, 5, 5), (2, 3, 2), (2, 7, 1), (2, 7, 7), (3, 4, 3)):
        res = LD.model_check(ctx, f"lp_T{T}N{N}F{f}", LD.cfg_constants(T, N, (f,), None, prefill[T]), liveness=True,
                             workers=4)
        ctx.add_tlc(f"LazyPool:T{T}N{N}fails{f}", res)
        if not res.ok:
            raise MachineryError(f"LazyPool.tla violates {res.violated}")
        n_lp += 1
    for T, N in ((2, 4), (3, 5)):
        cfg = tlc.make_cfg(ctx.tmp / f"pm{T}{N}.cfg", spec="FairSpec",
                           constants=c15.pm_consts(T, N, [frozenset({x}) for x in range(1, N + 1)], [N + 1]),
                           invariants=c15.INV, properties=["DropTerminates"], deadlock=True)
        res = tlc.run("ParallelMap", cfg, workers=2, coverage=False)
        ctx.add_tlc(f"ParallelMap:T{T}N{N}panic", res)
        if not res.ok:
            raise MachineryError(f"ParallelMap.tla violates {res.violated}")
    from ._readfamily import stage_batchmap_model
    stage_batchmap_model(ctx)
    ctx.cov["tlc_states"] = ctx.cov.pop("states", 0)
    ctx.cov["tlc_transitions"] = ctx.cov.pop("transitions", 0)
    # failing schedules on the real pool / panicking plans on the real Rust map
    rng = random.Random(ctx.seed + 7)
    n_sched = 0
    for i in range(250 if q else 5000):
        T = rng.choice((1, 2, 3))
        N = rng.randint(1, 2 * T + 5)
        fails = tuple(sorted(rng.sample(range(1, N + 1), rng.choice((1, 1, 2)) if N > 1 else 1)))
        ex = LD.run_scheduled(T=T, N=N, fails=fails, chooser=LD.random_chooser(ctx.seed * 7919 + i))
        n_sched += 1
        for sig, what in LD.judge(ex, T=T, N=N, fails=fails, abandon=None, rounds=1):
            ctx.violation(f"C07|iface=lazypool|{sig}", f"LazyPool T={T} N={N} failing inputs {list(fails)}: {what}",
                          {"T": T, "N": N, "fails": list(fails), "schedule": ex.steps})
            break
    from .. import rustext
    rustext.build()
    n_plans = 0
    for i in range(30 if q else 400):
        T = rng.choice((1, 2, 3))
        N = rng.randint(1, 6)
        x = rng.randint(1, N)
        steps = []
        for k in range(1, N + 1):
            steps.append(("panic " if k == x else "finish ") + str(k))
        order = list(range(N))
        steps = steps[:]
        plan = []
        fin = 0
        # interleave: finish items in order, call next after each
        for k in range(1, N + 1):
            plan.append(steps[k - 1])
            plan.append("next")
        plan.append("next")
        rc, log = c15.run_harness(T, N, ["openall"] if i % 3 == 0 else plan)
        if i % 3 == 0:
            rc, log = c15.run_harness(T, N, [("panic " + str(x))] + ["openall"] + ["next"] * (N + 1))
        n_plans += 1
        for kind, what in c15.judge_log(log, T, N, [x], N + 1):
            ctx.violation(f"C07|iface=rust-parallel-map|kind={kind}", f"parallel_map T={T} N={N} panicking item {x}: "
                          f"{what}", {"T": T, "N": N, "panic": x, "log": [" ".join(l) for l in log]})
    ctx.cov["failing_schedules_on_real_lazy_pool"] = n_sched
    ctx.cov["panicking_plans_on_real_parallel_map"] = n_plans
    ctx.log(f"failure paths: {n_lp + 2} TLC configurations + BatchMap; {n_sched} failing schedules on the real LazyPool, "
            f"{n_plans} panicking plans on the real Rust parallel_map")

    # ---------------------------------------------------------------- 2. damaged datasets, end to end
    ifaces = ["numpy", "concurrent", "async", "rust", "tfdata"]
    configs = [{"iface": i, "shuffle": s, "fp": fp, "repeat": False}
               for i in ifaces for s in (0, 3) for fp in (1, 2) if not (i == "numpy" and fp == 2)]
    if not q:
        configs += [{"iface": i, "shuffle": s, "fp": 2, "repeat": True} for i in ifaces for s in (0, 3)]
    tasks = []
    # (one compressed format in the quick tier too: a damaged compressed shard is rejected by the codec while the file
    # is read - a different failure path from the decoder's)
    formats = [("fb", ""), ("npz", ""), ("tfrec", ""), ("fb", "GZIP")] + \
              ([] if q else [("fb", "LZ4"), ("tfrec", "GZIP"), ("npz", "ZIP"), ("fb", "ZSTD")])
    for fmt, comp in formats:
        for position in ("first", "middle", "last") + (() if q else ("only",)):
            tasks.append({"fmt": fmt, "compression": comp, "position": position,
                          "nshards": 1 if position == "only" else 4,
                          "damages": ["deleted", "emptied", "garbage", "zeroed"] + ([] if q else ["truncated"]),
                          "configs": configs, "seed": ctx.seed, "watchdog": 60})
    for k, t in enumerate(tasks):
        t["progress"] = str(ctx.tmp / f"progress_{k}.jsonl")
    try:
        outs = H.run_histories(tasks, fn=damaged_reads, freeze_limit=400, frozen_ok=True)
    finally:
        H.shutdown_pool()
    passes, cells, skipped = 0, set(), set()
    for t, o in zip(tasks, outs):
        if o.get("frozen"):
            lines = Path(t["progress"]).read_text().splitlines() if Path(t["progress"]).exists() else []
            p = json.loads(lines[-1]) if lines else {"iface": "?", "shuffle": 0}
            ctx.violation(f"C07|iface={p.get('iface')}|kind=process-frozen|shuffled={'yes' if p.get('shuffle') else 'no'}",
                          f"{t['fmt']}/{t['compression']} shard {t['position']} {p.get('damage')}, {p.get('iface')} "
                          f"shuffle={p.get('shuffle')} file_parallelism={p.get('fp')} repeat={p.get('repeat')}: the "
                          f"reading process froze completely (no exception, no progress; even the watchdog thread of "
                          f"the pass never ran again): {o['detail']}", {"pass": p, "task": {k_: v for k_, v in t.items()
                                                                                            if k_ != "configs"}})
            continue
        if o.get("skipped_after_freeze"):
            skipped.add("some datasets were not examined after three reading processes had frozen")
            continue
        if o["error"]:
            raise MachineryError(o["error"])
        skipped |= set(o["skipped"])
        for p in o["passes"]:
            passes += 1
            cells.add((p["fmt"], p["damage"], p["position"], p["iface"], p["shuffle"] > 0, p["fp"], p["repeat"]))
            if p["outcome"].startswith("raised") or p["outcome"] == "ended-with-all-examples":
                continue
            kind = "hang" if p["outcome"] == "HANG" else "silent-truncation"
            ctx.violation(f"C07|iface={p['iface']}|kind={kind}|shuffled={'yes' if p['shuffle'] else 'no'}",
                          f"{p['fmt']}/{p['compression']} shard {p['position']} {p['damage']}, {p['iface']} "
                          f"shuffle={p['shuffle']} file_parallelism={p['fp']} repeat={p['repeat']}: {p['outcome']}",
                          {"pass": p})
    ctx.cov["evaluations"] = passes + n_sched + n_plans
    ctx.cov["distinct_nontrivial"] = len(cells)
    ctx.cov["rule"] = ("one evaluation = one full pass over a dataset with one damaged shard under a watchdog (plus the "
                       "failing schedules / panicking plans above); distinct non-trivial cases = distinct (format, "
                       "damage, position, interface, shuffled?, file_parallelism, repeat) cells whose damaged bytes the "
                       "third-party decoder rejects")
    ctx.cov["not_faults"] = sorted(skipped)
    judged = [o for o in outs if o.get("passes")]
    if judged:
        ctx.sample(judged[0]["passes"][0])
        ctx.sample(judged[-1]["passes"][-1])
    ctx.log(f"{passes} passes over damaged datasets, {len(cells)} distinct cells; not faults: {sorted(skipped)}")


def replay(ctx: Ctx, body: dict) -> None:
    w = body["witness"]
    ctx.cov.update({"evaluations": 1, "distinct_nontrivial": 2, "rule": "replay of one witness"})
    if "pass" in w:
        p = w["pass"]
        o = damaged_reads({"fmt": p["fmt"], "compression": p["compression"], "position": p["position"],
                           "nshards": p["nshards"], "damages": [p["damage"]], "seed": ctx.seed, "watchdog": 60,
                           "configs": [{k: p[k] for k in ("iface", "shuffle", "fp", "repeat")}]})
        for q in o["passes"]:
            if not (q["outcome"].startswith("raised") or q["outcome"] == "ended-with-all-examples"):
                ctx.violation(f"C07|iface={q['iface']}|kind={'hang' if q['outcome'] == 'HANG' else 'silent-truncation'}",
                              f"{q}", {"pass": q})
    elif "schedule" in w:
        ex = LD.run_scheduled(T=w["T"], N=w["N"], fails=tuple(w["fails"]), chooser=LD.random_chooser(0))
        for sig, what in LD.judge(ex, T=w["T"], N=w["N"], fails=tuple(w["fails"]), abandon=None, rounds=1):
            ctx.violation(f"C07|iface=lazypool|{sig}", what, w)
