------------------------------ MODULE PathGuard ------------------------------
(* C17: path strings taken from metadata (or given as a writer's sub-directory) that pass the library's    *)
(* guards resolve inside the dataset root.  A path string is [abs |-> number of leading slashes,           *)
(* comps |-> sequence of components]; components are names, ".", ".." and "" (repeated separator).         *)
(* Parts models pathlib (drops "" and ".", keeps ".."), Join the `/` operator (an absolute right operand   *)
(* replaces the left one), Resolve the lexical normalisation (no symlinks).                                *)
EXTENDS Naturals, Sequences, FiniteSets, TLC, Json, IOUtils

CONSTANTS MaxComps,
          Comps,          \* e.g. {"r", "a", ".", "..", ""}; "r" is the name of the dataset root under "/"
          RejectAbsolute  \* TRUE: the guards also refuse absolute paths (repaired); FALSE: defect D6

VARIABLES abs, comps
vars == <<abs, comps>>

Root == [isabs |-> TRUE, parts |-> <<"r">>]
Parts(a, cs) == [isabs |-> a > 0, parts |-> SelectSeq(cs, LAMBDA c : c # "" /\ c # ".")]
HasDotDot(p) == \E i \in 1..Len(p.parts) : p.parts[i] = ".."
\* file_info.py:36-54, shard_file_metadata.py:123-146, dataset_filler.py:77-83
Guard(p) == ~HasDotDot(p) /\ (RejectAbsolute => ~p.isabs)
Join(r, p) == IF p.isabs THEN p ELSE [isabs |-> r.isabs, parts |-> r.parts \o p.parts]
\* lexical normalisation; `up` counts the levels climbed above the top of the modelled world (the scratch
\* directory that stands for "/" lies deep enough in the real file system for this never to be clamped)
RECURSIVE Norm(_, _, _)
Norm(ps, acc, up) == IF ps = <<>> THEN [parts |-> acc, up |-> up]
                     ELSE IF Head(ps) = ".."
                          THEN IF acc = <<>> THEN Norm(Tail(ps), <<>>, up + 1)
                               ELSE Norm(Tail(ps), SubSeq(acc, 1, Len(acc) - 1), up)
                     ELSE IF up > 0 THEN Norm(Tail(ps), acc, up)      \* below a foreign ancestor: never back inside
                     ELSE Norm(Tail(ps), Append(acc, Head(ps)), up)
Resolve(q) == [isabs |-> q.isabs, parts |-> Norm(q.parts, <<>>, 0).parts, up |-> Norm(q.parts, <<>>, 0).up]
Inside(r, q) == /\ q.isabs = r.isabs /\ q.up = 0 /\ Len(q.parts) >= Len(r.parts)
                /\ SubSeq(q.parts, 1, Len(r.parts)) = r.parts

Seqs(n) == UNION {[1..m -> Comps] : m \in 0..n}
\* (a relative string cannot start with an empty component: that would be a leading slash, i.e. abs > 0)
Init == abs \in 0..3 /\ comps \in Seqs(MaxComps) /\ (abs = 0 => (comps = <<>> \/ comps[1] # ""))
Next == FALSE /\ UNCHANGED vars
Spec == Init /\ [][Next]_vars

P == Parts(abs, comps)
Target == Resolve(Join(Root, P))
\* every guarded string stays inside the root
GuardIsSafe == Guard(P) => Inside(Root, Target)
\* the guard is not vacuous: relative strings without ".." are accepted
GuardAcceptsPlain == (abs = 0 /\ \A i \in 1..Len(comps) : comps[i] # "..") => Guard(P)
===============================================================================
