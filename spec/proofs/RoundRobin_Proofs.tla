--------------------------- MODULE RoundRobin_Proofs ---------------------------
(* TLAPS proof that itertools.round_robin never holds more than B inner iterators open (C14), for EVERY      *)
(* number and length of inner iterables and every B >= 1 - TLC checks this for a handful of Lens.            *)
EXTENDS RoundRobin, SequenceTheorems, TLAPS

ASSUME ConstAssump == Lens \in Seq(Nat) /\ B \in Nat /\ B >= 1

Slot == [k : Nat, pos : Nat]

Inv ==
    /\ opened \in Nat
    /\ buf \in Seq(Slot)
    /\ pc \in {"fill", "loop", "done"}
    /\ Len(buf) <= B

LEMMA InitInv == Init => Inv
  BY ConstAssump, EmptySeq DEF Init, Inv

LEMMA SwapRemoveType ==
    ASSUME NEW S, NEW s \in Seq(S), NEW p \in 1..Len(s)
    PROVE  LET t == [j \in 1..Len(s) - 1 |-> IF j = p THEN s[Len(s)] ELSE s[j]]
           IN  t \in Seq(S) /\ Len(t) = Len(s) - 1
  <1> DEFINE t == [j \in 1..Len(s) - 1 |-> IF j = p THEN s[Len(s)] ELSE s[j]]
  <1>1. Len(s) \in Nat /\ Len(s) >= 1
    BY LenProperties
  <1>2. Len(s) - 1 \in Nat
    BY <1>1
  <1>3. \A j \in 1..Len(s) - 1 : (IF j = p THEN s[Len(s)] ELSE s[j]) \in S
    BY <1>1, ElementOfSeq
  <1>4. t \in Seq(S) /\ Len(t) = Len(s) - 1
    BY <1>2, <1>3, IsASeq
  <1> QED BY <1>4

LEMMA NextInv == Inv /\ [Next]_vars => Inv'
  <1> SUFFICES ASSUME Inv, [Next]_vars PROVE Inv'
    OBVIOUS
  <1> USE ConstAssump
  <1>1. CASE FillOpen
    <2>1. [k |-> opened + 1, pos |-> 0] \in Slot
      BY DEF Inv, Slot
    <2>2. buf' \in Seq(Slot) /\ Len(buf') = Len(buf) + 1
      BY <1>1, <2>1, AppendProperties DEF FillOpen, Inv
    <2> QED BY <1>1, <2>2, LenProperties DEF FillOpen, Inv
  <1>2. CASE FillEnd
    BY <1>2 DEF FillEnd, Inv
  <1>3. ASSUME NEW p \in 1..B, Pick(p) PROVE Inv'
    <2> DEFINE c == buf[p]
    <2>0. p \in 1..Len(buf) /\ c \in Slot
      BY <1>3, ElementOfSeq DEF Pick, Inv
    <2>1. CASE c.pos < Lens[c.k]
      <3>1. buf' = [buf EXCEPT ![p].pos = @ + 1] /\ opened' = opened /\ pc' = pc
        BY <1>3, <2>1 DEF Pick
      <3>2. [c EXCEPT !.pos = @ + 1] \in Slot
        BY <2>0 DEF Slot
      <3>3. buf' \in Seq(Slot) /\ Len(buf') = Len(buf)
        BY <3>1, <3>2, <2>0, ExceptSeq DEF Inv
      <3> QED BY <3>1, <3>3 DEF Inv
    <2>2. CASE ~(c.pos < Lens[c.k]) /\ opened < K
      <3>1. buf' = [buf EXCEPT ![p] = [k |-> opened + 1, pos |-> 0]] /\ opened' = opened + 1 /\ pc' = pc
        BY <1>3, <2>2 DEF Pick
      <3>2. [k |-> opened + 1, pos |-> 0] \in Slot
        BY DEF Inv, Slot
      <3>3. buf' \in Seq(Slot) /\ Len(buf') = Len(buf)
        BY <3>1, <3>2, <2>0, ExceptSeq DEF Inv
      <3> QED BY <3>1, <3>3 DEF Inv
    <2>3. CASE ~(c.pos < Lens[c.k]) /\ ~(opened < K)
      <3>1. buf' = [j \in 1..Len(buf) - 1 |-> IF j = p THEN buf[Len(buf)] ELSE buf[j]]
            /\ opened' = opened /\ pc' = pc
        BY <1>3, <2>3 DEF Pick
      <3>2. buf' \in Seq(Slot) /\ Len(buf') = Len(buf) - 1
        BY <3>1, <2>0, SwapRemoveType DEF Inv
      <3> QED BY <3>1, <3>2, LenProperties DEF Inv
    <2> QED BY <2>1, <2>2, <2>3
  <1>4. CASE Done
    BY <1>4 DEF Done, Inv
  <1>5. CASE Finished
    BY <1>5 DEF Finished, Inv, vars
  <1>6. CASE UNCHANGED vars
    BY <1>6 DEF Inv, vars
  <1> QED BY <1>1, <1>2, <1>3, <1>4, <1>5, <1>6 DEF Next

THEOREM OpenBoundedForAllInputs == Spec => []OpenBounded
  <1>1. Spec => []Inv
    BY InitInv, NextInv, PTL DEF Spec
  <1>2. Inv => OpenBounded
    BY DEF Inv, OpenBounded
  <1> QED BY <1>1, <1>2, PTL
===============================================================================
