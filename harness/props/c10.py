"""C10 - decided by spec/Dataset.tla at history level; see _dsfamily.py and DESIGN.md section 5."""
from . import _dsfamily as F

LEVEL = "model_checking"


def run(ctx):
    F.run_prop(ctx, "C10")


def replay(ctx, body):
    F.replay_prop(ctx, body, "C10")
