------------------------------ MODULE CodecCells ------------------------------
(* C01 (exploration level): a structural model of the codec pipelines over opaque element tokens.  An array   *)
(* with n elements is identified with the sequence of its logical (C-order) element indices 1..n; a           *)
(* presentation fixes how the writer receives it (memory order, byte order, dtype relation, container).        *)
(* The model follows each normalisation step of the writers and the inverse steps of the readers and checks    *)
(* that the logical element sequence and the byte order inside each element are preserved, and it records      *)
(* the typing rule of each format.  It says nothing about values: that part is sampled on the real code.       *)
EXTENDS Naturals, Sequences, FiniteSets, TLC

CONSTANTS Dims,          \* set of shapes (sequences of positive dims), rank 0..4
          Variant        \* "good" | "dump_memory_order" | "no_byteswap" | "reshape_fortran"  (sanity variants)

Formats == {"fb", "npz", "tfrec"}
Orders == {"C", "F", "strided"}
ByteOrders == {"native", "little", "big"}
Relations == {"same", "narrow"}          \* same dtype as declared / narrower dtype that casts safely

VARIABLES fmt, shape, order, bo, rel
vars == <<fmt, shape, order, bo, rel>>
Init == fmt \in Formats /\ shape \in Dims /\ order \in Orders /\ bo \in ByteOrders /\ rel \in Relations
Next == FALSE /\ UNCHANGED vars
Spec == Init /\ [][Next]_vars

RECURSIVE Prod(_)
Prod(s) == IF s = <<>> THEN 1 ELSE Head(s) * Prod(Tail(s))
N == Prod(shape)
Logical == [i \in 1..N |-> i]

\* Memory order of the presentation: for "F" the elements lie in column-major order.  The position of logical
\* (C-order) index i in Fortran order is obtained by reversing the mixed-radix digits.
RECURSIVE Digits(_, _)
Digits(i, s) == IF s = <<>> THEN <<>>
                ELSE LET rest == Prod(Tail(s)) IN <<i \div rest>> \o Digits(i % rest, Tail(s))
RECURSIVE FIndex(_, _, _)
FIndex(ds, s, k) == IF k > Len(s) THEN 0
                    ELSE ds[k] * Prod(SubSeq(s, 1, k - 1)) + FIndex(ds, s, k + 1)
FPos(i) == FIndex(Digits(i - 1, shape), shape, 1) + 1
Memory == IF order = "F" THEN [p \in 1..N |-> CHOOSE i \in 1..N : FPos(i) = p] ELSE Logical

\* ---- FlatBuffers writer (shard_writer_flatbuffer.py:101-200) and reader (iterate.py:79-115)
\* np.copy(value).flatten(): logical C order whatever the memory layout ; np.array(.., dtype=declared) ;
\* byteswap when big-endian ; tobytes(order="C") ; reader: frombuffer(little-endian declared dtype).reshape(shape)
FbFlatten == IF Variant = "dump_memory_order" THEN Memory ELSE Logical
FbStoredBigEndian == IF Variant = "no_byteswap" THEN bo = "big" ELSE FALSE
FbRead == IF Variant = "reshape_fortran" /\ Len(shape) > 1
          THEN [p \in 1..N |-> CHOOSE i \in 1..N : FPos(i) = p]
          ELSE FbFlatten
\* ---- npz: np.copy of each value, one stacked array per attribute, value[i] on reading (shape and dtype as stored)
NpzRead == Logical
\* ---- TFRecord: tf.constant([value]) reshaped to 1-D (logical order), FixedLenFeature(shape) on reading
TfRead == Logical

ReadBack == CASE fmt = "fb" -> FbRead [] fmt = "npz" -> NpzRead [] fmt = "tfrec" -> TfRead
ElementOrderPreserved == ReadBack = Logical
ByteOrderPreserved == (fmt = "fb") => ~FbStoredBigEndian
\* typing rule: what dtype class comes back
ReturnedType == CASE fmt = "fb" -> "declared"
                  [] fmt = "npz" -> (IF rel = "narrow" THEN "as_presented" ELSE "declared")
                  [] fmt = "tfrec" -> "widened"        \* integers -> int64, float32 stays, str -> UTF-8 bytes
TypingRule == (fmt = "fb" => ReturnedType = "declared")
===============================================================================
