------------------------ MODULE ParallelMap_OrderProofs ------------------------
(* TLAPS proof that the Rust parallel map hands its results back in input order (C15, C03) and never ends      *)
(* normally before every input has been delivered (C07, C02): Order and NoSilentTruncation hold for EVERY      *)
(* thread count T >= 1, input length N, set of panicking items and drop position (repaired code).              *)
(* The inductive invariant describes where each worker's single outstanding item is: with c completed          *)
(* receive/send cycles, worker w (counted cyclically from `now`) holds item c + 1 + Dist(w) - in its inbox,    *)
(* in its hands, or in its outbox - as long as that item exists.                                               *)
EXTENDS ParallelMap_Proofs

(* constants: ConstAssump of ParallelMap_Proofs (T >= 1, N, repaired code); its invariant Inv supplies the typing *)

Live == cst \in {"idle", "send"}
C == IF cst = "send" THEN Len(out) - 1 ELSE Len(out)       \* completed cycles
Dist(w) == IF w >= now THEN w - now ELSE w - now + Wn
Item(w) == C + 1 + Dist(w)
Avail == IF N < C + Wn THEN N ELSE C + Wn                   \* items handed out so far = nxt - 1

Holds(w, x) == \/ toW[w] = <<x>> /\ wst[w] = "recv" /\ fromW[w] = <<>>
               \/ toW[w] = <<>> /\ wst[w] = "run" /\ witem[w] = x /\ fromW[w] = <<>>
               \/ toW[w] = <<>> /\ wst[w] = "recv" /\ fromW[w] = <<x>>
Idle(w) == /\ fromW[w] = <<>>
           /\ \/ toW[w] = <<>> /\ wst[w] = "recv"
              \/ toW[w] = <<NONE>> /\ wst[w] = "recv"
              \/ toW[w] = <<>> /\ wst[w] = "exited"

OInv ==
    /\ out \in Seq(Nat)
    /\ cst \in {"idle", "send", "sendlast", "ended", "raised", "drop", "dropping", "joined"}
    /\ Order
    /\ Len(out) <= N
    /\ cst \in {"sendlast", "ended"} => Len(out) = N
    /\ (Live /\ Wn >= 1) =>
        /\ now \in W /\ rxalive
        /\ nxt = Avail + 1
        /\ cst = "send" => Len(out) >= 1
        /\ \A w \in W :
            \/ wst[w] = "panicked" /\ fromW[w] = <<>>
            \/ IF cst = "send" /\ w = now
               THEN toW[w] = <<>> /\ wst[w] = "recv" /\ fromW[w] = <<>>
               ELSE IF Item(w) <= Avail THEN Holds(w, Item(w)) ELSE Idle(w)


LEMMA OneSeq ==
    ASSUME NEW x \in Nat
    PROVE  /\ <<x>> \in Seq(Nat) /\ Len(<<x>>) = 1 /\ <<x>>[1] = x /\ <<x>> # <<>>
           /\ Head(<<x>>) = x /\ Tail(<<x>>) = <<>>
           /\ Append(<<>>, x) = <<x>>
  OBVIOUS

LEMMA ModStep == ASSUME NEW n \in Nat, n >= 1, NEW a \in 1..n
                 PROVE (a % n) + 1 = IF a = n THEN 1 ELSE a + 1
  OBVIOUS

LEMMA InitOInv == Init => OInv
  <1> SUFFICES ASSUME Init PROVE OInv
    OBVIOUS
  <1> USE ConstAssump, WnProps
  <1>1. out = <<>> /\ Len(out) = 0 /\ out \in Seq(Nat)
    BY EmptySeq DEF Init
  <1>2. Order
    BY <1>1 DEF Order
  <1>3. cst \in {"idle", "drop"}
    BY DEF Init
  <1>4. ASSUME Live, Wn >= 1
        PROVE /\ now \in W /\ nxt = Avail + 1 /\ rxalive /\ cst # "send"
              /\ \A w \in W : Item(w) <= Avail /\ Holds(w, Item(w))
    <2>1. cst = "idle" /\ C = 0 /\ now = 1 /\ nxt = Wn + 1 /\ Avail = Wn /\ rxalive
      BY <1>4, <1>1, <1>3 DEF Live, C, Init, Avail
    <2>2. \A w \in W : Dist(w) = w - 1 /\ Item(w) = w /\ w <= Wn
      BY <2>1 DEF W, Dist, Item
    <2>3. \A w \in W : toW[w] = <<w>> /\ wst[w] = "recv" /\ fromW[w] = <<>>
      BY DEF Init
    <2> QED BY <1>4, <2>1, <2>2, <2>3 DEF Holds, W
  <1> QED BY <1>1, <1>2, <1>3, <1>4 DEF OInv, Live

LEMMA DistProps ==
    ASSUME Wn >= 1, now \in W, NEW w \in W
    PROVE  Dist(w) \in 0..(Wn - 1) /\ (Dist(w) = 0 <=> w = now)
  BY WnProps DEF Dist, W

LEMMA NextOInv == OInv /\ Inv /\ Inv' /\ [Next]_vars => OInv'
  <1> SUFFICES ASSUME OInv, Inv, Inv', [Next]_vars PROVE OInv'
    OBVIOUS
  <1> USE ConstAssump, WnProps
  <1>t. /\ out \in Seq(Nat) /\ Len(out) \in Nat /\ nxt \in Nat
        /\ toW \in [W -> Seq(Nat)] /\ fromW \in [W -> Seq(Nat)] /\ witem \in [W -> Nat]
        /\ wst \in [W -> {"recv", "run", "exited", "panicked"}]
    BY LenProperties DEF Inv
  <1>a. ASSUME ~Live', out' = out, cst' \in {"idle", "send", "sendlast", "ended", "raised", "drop", "dropping", "joined"},
               cst' \in {"sendlast", "ended"} => Len(out) = N
        PROVE OInv'
    BY <1>a DEF OInv, Order, Live
  <1>b. ASSUME ~Live, cst' = cst, out' = out PROVE OInv'
    BY <1>b DEF OInv, Order, Live
  <1>1. CASE CRecv
    <2>0. cst = "idle" /\ UNCHANGED <<nxt, toW, wst, witem, now, rxalive, Panics, DropAfter>>
      BY <1>1 DEF CRecv
    <2>1. CASE Wn = 0
      <3>1. cst' = "ended" /\ out' = out
        BY <1>1, <2>1 DEF CRecv
      <3>2. N = 0 /\ Len(out) = 0
        BY <2>1, <1>t DEF Wn, OInv
      <3> QED BY <3>1, <3>2, <1>a DEF Live
    <2>2. CASE Wn # 0 /\ fromW[now] = <<>>
      <3>1. cst' \in {"raised", "sendlast"} /\ out' = out
        BY <1>1, <2>2 DEF CRecv
      <3>2. ASSUME cst' = "sendlast" PROVE Len(out) = N
        <4>0. Live /\ Wn >= 1 /\ C = Len(out) /\ now \in W
          BY <2>0, <2>2 DEF OInv, Live, C
        <4>1. wst[now] = "exited"
          BY <1>1, <2>2, <3>2 DEF CRecv, Gone
        <4>2. ~(Item(now) <= Avail)
          BY <4>0, <4>1, <2>0 DEF OInv, Holds
        <4>3. Item(now) = Len(out) + 1
          BY <4>0, <1>t, DistProps DEF Item
        <4>4. Avail = N /\ N < Len(out) + 1
          BY <4>0, <4>2, <4>3, <1>t DEF Avail
        <4> QED BY <4>4, <1>t DEF OInv
      <3> QED BY <3>1, <3>2, <1>a DEF Live
    <2>3. CASE Wn # 0 /\ fromW[now] # <<>>
      <3>0. Live /\ Wn >= 1 /\ C = Len(out) /\ now \in W /\ rxalive /\ nxt = Avail + 1
        BY <2>0, <2>3 DEF OInv, Live, C
      <3>1. out' = Append(out, Head(fromW[now])) /\ fromW' = [fromW EXCEPT ![now] = Tail(@)] /\ cst' = "send"
        BY <1>1, <2>3 DEF CRecv
      <3>2. Item(now) = Len(out) + 1 /\ Item(now) \in Nat
        BY <3>0, <1>t, DistProps DEF Item
      <3>3. fromW[now] = <<Item(now)>> /\ toW[now] = <<>> /\ wst[now] = "recv" /\ Item(now) <= Avail
        BY <3>0, <2>0, <2>3 DEF OInv, Holds, Idle
      <3>4. Head(fromW[now]) = Len(out) + 1 /\ Tail(fromW[now]) = <<>>
        BY <3>2, <3>3, OneSeq
      <3>5. /\ out' \in Seq(Nat) /\ Len(out') = Len(out) + 1
            /\ \A i \in 1..Len(out) : out'[i] = out[i]
            /\ out'[Len(out) + 1] = Len(out) + 1
        BY <3>1, <3>4, <1>t, AppendProperties
      <3>6. Order'
        <4> SUFFICES ASSUME NEW i \in 1..Len(out') PROVE out'[i] = i
          BY DEF Order
        <4>1. CASE i \in 1..Len(out)
          BY <4>1, <3>5 DEF OInv, Order
        <4>2. CASE i = Len(out) + 1
          <5>1. out'[Len(out) + 1] = Len(out) + 1
            BY <3>5
          <5> QED BY <4>2, <5>1, <1>t
        <4> QED BY <4>1, <4>2, <3>5, <1>t
      <3>7. C' = C /\ Avail' = Avail /\ now' = now /\ Live'
        BY <3>0, <3>1, <3>5, <2>0, <1>t DEF C, Avail, Live
      <3>8. \A w \in W : Item(w)' = Item(w)
        BY <3>7 DEF Item, Dist
      <3>9. ASSUME NEW w \in W
            PROVE \/ wst'[w] = "panicked" /\ fromW'[w] = <<>>
                  \/ IF cst' = "send" /\ w = now'
                     THEN toW'[w] = <<>> /\ wst'[w] = "recv" /\ fromW'[w] = <<>>
                     ELSE IF Item(w)' <= Avail' THEN Holds(w, Item(w))' ELSE Idle(w)'
        <4>1. CASE w = now
          BY <4>1, <3>1, <3>3, <3>4, <3>0, <2>0, <1>t, <3>7
        <4>2. CASE w # now
          <5>1. fromW'[w] = fromW[w] /\ toW'[w] = toW[w] /\ wst'[w] = wst[w] /\ witem'[w] = witem[w]
            BY <4>2, <3>1, <3>0, <2>0, <1>t
          <5>2. \/ wst[w] = "panicked" /\ fromW[w] = <<>>
                \/ IF Item(w) <= Avail THEN Holds(w, Item(w)) ELSE Idle(w)
            BY <3>0, <2>0 DEF OInv
          <5> QED BY <4>2, <5>1, <5>2, <3>7, <3>8 DEF Holds, Idle
        <4> QED BY <4>1, <4>2
      <3>10. nxt' = Avail' + 1 /\ rxalive' /\ now' \in W /\ Len(out') >= 1
        BY <3>0, <3>7, <2>0, <3>5, <1>t
      <3>11. Len(out') <= N /\ cst' \notin {"sendlast", "ended"}
        BY <3>1, <3>2, <3>3, <3>5, <3>0, <1>t DEF Avail
      <3> QED BY <3>1, <3>5, <3>6, <3>9, <3>10, <3>11 DEF OInv
    <2> QED BY <2>1, <2>2, <2>3
  <1>2. CASE CSend
    <2>0. cst \in {"send", "sendlast"} /\ UNCHANGED <<fromW, wst, witem, out, rxalive, Panics, DropAfter>>
          /\ toW' = [toW EXCEPT ![now] = Append(@, NextItem)]
          /\ nxt' = (IF nxt <= N THEN nxt + 1 ELSE nxt) /\ now' = (now % Wn) + 1
      BY <1>2 DEF CSend
    <2>1. CASE cst = "sendlast"
      <3>1. cst' = "ended"
        BY <1>2, <2>1 DEF CSend
      <3>2. Len(out) = N
        BY <2>1 DEF OInv
      <3> QED BY <3>1, <3>2, <2>0, <1>a DEF Live
    <2>2. CASE cst = "send" /\ cst' # "idle"
      <3>1. cst' = "drop"
        BY <1>2, <2>2 DEF CSend
      <3> QED BY <3>1, <2>0, <1>a DEF Live
    <2>3. CASE cst = "send" /\ cst' = "idle"
      <3>w. Wn >= 1
        BY <2>3 DEF Inv
      <3>0. Live /\ now \in W /\ rxalive /\ nxt = Avail + 1 /\ Len(out) >= 1 /\ C = Len(out) - 1
        BY <2>3, <3>w DEF OInv, Live, C
      <3>1. now' = (IF now = Wn THEN 1 ELSE now + 1) /\ now' \in W
        BY <2>0, <3>0, <3>w, ModStep DEF W
      <3>2. C' = C + 1 /\ Live' /\ C \in Nat
        BY <2>3, <2>0, <3>0, <1>t DEF C, Live
      <3>3. Avail' = (IF N < C + 1 + Wn THEN N ELSE C + 1 + Wn) /\ Avail = (IF N < C + Wn THEN N ELSE C + Wn)
        BY <3>2 DEF Avail
      <3>4. nxt' = Avail' + 1 /\ Avail' >= Avail /\ Avail' <= Avail + 1
        BY <2>0, <3>0, <3>2, <3>3
      <3>p. PICK n0 \in W : n0 = now
        BY <3>0
      <3>6. \A w \in W : w # n0 => Dist(w)' = Dist(w) - 1 /\ Dist(w) \in 1..(Wn - 1)
        BY <3>p, <3>0, <3>1, <3>w DEF Dist, W
      <3>7. Dist(n0)' = Wn - 1
        BY <3>p, <3>0, <3>1, <3>w DEF Dist, W
      <3>8. \A w \in W : w # n0 => Item(w)' = Item(w)
        BY <3>2, <3>6 DEF Item
      <3>9. Item(n0)' = C + 1 + Wn
        BY <3>2, <3>7 DEF Item
      <3>10. ASSUME NEW w \in W
             PROVE \/ wst'[w] = "panicked" /\ fromW'[w] = <<>>
                   \/ IF Item(w)' <= Avail' THEN Holds(w, Item(w))' ELSE Idle(w)'
        <4>1. CASE w # n0
          <5>1. fromW'[w] = fromW[w] /\ toW'[w] = toW[w] /\ wst'[w] = wst[w] /\ witem'[w] = witem[w]
            BY <4>1, <2>0, <3>0, <3>p, <1>t
          <5>2. \/ wst[w] = "panicked" /\ fromW[w] = <<>>
                \/ IF Item(w) <= Avail THEN Holds(w, Item(w)) ELSE Idle(w)
            BY <3>0, <3>w, <3>p, <2>3, <4>1 DEF OInv
          <5>3. Item(w) <= Avail' => Item(w) <= Avail
            <6>1. Item(w) <= C + Wn /\ Item(w) \in Nat
              BY <3>6, <4>1, <3>2 DEF Item
            <6> QED BY <6>1, <3>3, <3>2
          <5>4. Item(w)' = Item(w) /\ Item(w) \in Nat /\ Avail \in Nat /\ Avail' \in Nat
            BY <4>1, <3>8, <3>6, <3>2, <3>3 DEF Item
          <5>5. CASE wst[w] = "panicked" /\ fromW[w] = <<>>
            BY <5>5, <5>1
          <5>6. CASE Item(w) <= Avail /\ Holds(w, Item(w))
            <6>1. Item(w)' <= Avail'
              BY <5>6, <5>4, <3>4
            <6>2. Holds(w, Item(w))'
              BY <5>6, <5>1, <5>4 DEF Holds
            <6> QED BY <6>1, <6>2
          <5>7. CASE ~(Item(w) <= Avail) /\ Idle(w)
            <6>1. ~(Item(w)' <= Avail')
              BY <5>7, <5>4, <5>3
            <6>2. Idle(w)'
              BY <5>7, <5>1 DEF Idle
            <6> QED BY <6>1, <6>2
          <5> QED BY <5>2, <5>5, <5>6, <5>7
        <4>2. CASE w = n0 /\ wst[n0] = "panicked"
          <5>0. \/ wst[n0] = "panicked" /\ fromW[n0] = <<>>
                \/ toW[n0] = <<>> /\ wst[n0] = "recv" /\ fromW[n0] = <<>>
            BY <3>0, <3>w, <3>p, <2>3 DEF OInv
          <5>1. wst'[w] = "panicked" /\ fromW'[w] = <<>>
            BY <4>2, <5>0, <2>0
          <5> QED BY <5>1
        <4>3. CASE w = n0 /\ wst[n0] # "panicked"
          <5>0. \/ wst[n0] = "panicked" /\ fromW[n0] = <<>>
                \/ toW[n0] = <<>> /\ wst[n0] = "recv" /\ fromW[n0] = <<>>
            BY <3>0, <3>w, <3>p, <2>3 DEF OInv
          <5>1. toW[n0] = <<>> /\ wst[n0] = "recv" /\ fromW[n0] = <<>>
            BY <4>3, <5>0
          <5>2. NextItem \in Nat /\ toW'[n0] = <<NextItem>>
            BY <5>1, <2>0, <3>0, <3>p, <1>t, OneSeq DEF NextItem, NONE
          <5>3. wst'[n0] = "recv" /\ fromW'[n0] = <<>>
            BY <5>1, <2>0
          <5>4. CASE nxt <= N
            <6>1. NextItem = nxt /\ nxt = C + Wn + 1 /\ Avail' = C + 1 + Wn
              BY <5>4, <3>0, <3>3, <3>2 DEF NextItem
            <6>2. Item(w)' = nxt /\ Item(w)' <= Avail'
              BY <6>1, <4>3, <3>9, <3>2
            <6>3. toW'[w] = <<Item(w)'>> /\ wst'[w] = "recv" /\ fromW'[w] = <<>>
              BY <6>1, <6>2, <5>2, <5>3, <4>3
            <6>4. Holds(w, Item(w))'
              BY <6>3 DEF Holds
            <6> QED BY <6>2, <6>4
          <5>5. CASE ~(nxt <= N)
            <6>1. NextItem = NONE /\ Avail' = N /\ C + 1 + Wn > N
              BY <5>5, <3>0, <3>3, <3>2, <1>t DEF NextItem
            <6>2. ~(Item(w)' <= Avail')
              BY <6>1, <4>3, <3>9, <3>2
            <6>3. toW'[w] = <<NONE>> /\ wst'[w] = "recv" /\ fromW'[w] = <<>>
              BY <6>1, <5>2, <5>3, <4>3
            <6>4. Idle(w)'
              BY <6>3 DEF Idle
            <6> QED BY <6>2, <6>4
          <5> QED BY <5>4, <5>5
        <4> QED BY <4>1, <4>2, <4>3
      <3>11. out' = out /\ rxalive' /\ cst' # "send"
        BY <2>0, <2>3, <3>0
      <3>12. Order'
        BY <3>11 DEF OInv, Order
      <3> QED BY <2>3, <3>1, <3>4, <3>10, <3>11, <3>12, <1>t DEF OInv
    <2> QED BY <2>0, <2>1, <2>2, <2>3
  <1>3. CASE CDrop
    <2>1. cst' = "dropping" /\ out' = out
      BY <1>3 DEF CDrop
    <2> QED BY <2>1, <1>a DEF Live
  <1>4. CASE CJoin
    <2>1. cst' = "joined" /\ out' = out
      BY <1>4 DEF CJoin
    <2> QED BY <2>1, <1>a DEF Live
  <1>5. ASSUME NEW v \in W, WRecv(v) PROVE OInv'
    <2>0. wst[v] = "recv" /\ toW[v] # <<>> /\ toW' = [toW EXCEPT ![v] = Tail(@)]
          /\ UNCHANGED <<nxt, fromW, now, out, cst, rxalive, Panics, DropAfter>>
      BY <1>5 DEF WRecv
    <2>1. CASE ~(Live /\ Wn >= 1)
      <3>1. ~(Live' /\ Wn >= 1) /\ Order'
        BY <2>0, <2>1 DEF Live, OInv, Order
      <3> QED BY <3>1, <2>0 DEF OInv
    <2>2. CASE Live /\ Wn >= 1
      <3>0. now \in W /\ rxalive /\ nxt = Avail + 1 /\ (cst = "send" => Len(out) >= 1)
        BY <2>2 DEF OInv
      <3>1. C' = C /\ Avail' = Avail /\ Live' /\ \A w \in W : Item(w)' = Item(w)
        BY <2>0, <2>2 DEF C, Avail, Live, Item, Dist
      <3>2. ~(cst = "send" /\ v = now) /\ wst[v] # "panicked"
        BY <2>0, <2>2 DEF OInv
      <3>3. IF Item(v) <= Avail THEN Holds(v, Item(v)) ELSE Idle(v)
        BY <2>0, <2>2, <3>2 DEF OInv
      <3>c. C \in Nat /\ Item(v) \in Nat /\ Item(v) >= 1
        <4>1. Dist(v) \in 0..(Wn - 1)
          BY <3>0, <2>2, DistProps
        <4>2. C \in Nat
          BY <3>0, <1>t DEF C
        <4> QED BY <4>1, <4>2 DEF Item
      <3>4. CASE Item(v) <= Avail
        <4>1. toW[v] = <<Item(v)>> /\ fromW[v] = <<>>
          BY <3>3, <3>4, <2>0 DEF Holds
        <4>2. Head(toW[v]) = Item(v) /\ Tail(toW[v]) = <<>> /\ Item(v) # NONE
          BY <4>1, <3>c, OneSeq DEF NONE
        <4>3. wst'[v] = "run" /\ witem'[v] = Item(v) /\ toW'[v] = <<>> /\ fromW'[v] = <<>>
          BY <1>5, <4>1, <4>2, <2>0, <1>t DEF WRecv
        <4>4. Holds(v, Item(v))'
          BY <4>3, <3>1 DEF Holds
        <4>5. ASSUME NEW w \in W, w # v
              PROVE toW'[w] = toW[w] /\ wst'[w] = wst[w] /\ witem'[w] = witem[w] /\ fromW'[w] = fromW[w]
          BY <1>5, <4>5, <2>0, <1>t DEF WRecv
        <4> QED BY <4>4, <4>5, <3>1, <3>0, <3>2, <3>4, <2>0, <2>2 DEF OInv, Order, Holds, Idle
      <3>5. CASE ~(Item(v) <= Avail)
        <4>1. toW[v] = <<NONE>> /\ fromW[v] = <<>>
          BY <3>3, <3>5, <2>0 DEF Idle
        <4>2. Head(toW[v]) = NONE /\ Tail(toW[v]) = <<>>
          BY <4>1, OneSeq DEF NONE
        <4>3. wst'[v] = "exited" /\ toW'[v] = <<>> /\ fromW'[v] = <<>>
          BY <1>5, <4>1, <4>2, <2>0, <1>t DEF WRecv
        <4>4. Idle(v)'
          BY <4>3 DEF Idle
        <4>5. ASSUME NEW w \in W, w # v
              PROVE toW'[w] = toW[w] /\ wst'[w] = wst[w] /\ witem'[w] = witem[w] /\ fromW'[w] = fromW[w]
          BY <1>5, <4>5, <2>0, <1>t DEF WRecv
        <4> QED BY <4>4, <4>5, <3>1, <3>0, <3>2, <3>5, <2>0, <2>2 DEF OInv, Order, Holds, Idle
      <3> QED BY <3>4, <3>5
    <2> QED BY <2>1, <2>2
  <1>6. ASSUME NEW v \in W, WRun(v) PROVE OInv'
    <2>0. wst[v] = "run" /\ UNCHANGED <<nxt, toW, witem, now, out, cst, rxalive, Panics, DropAfter>>
      BY <1>6 DEF WRun
    <2>1. CASE ~(Live /\ Wn >= 1)
      <3>1. ~(Live' /\ Wn >= 1) /\ Order'
        BY <2>0, <2>1 DEF Live, OInv, Order
      <3> QED BY <3>1, <2>0 DEF OInv
    <2>2. CASE Live /\ Wn >= 1
      <3>0. now \in W /\ rxalive /\ nxt = Avail + 1 /\ (cst = "send" => Len(out) >= 1)
        BY <2>2 DEF OInv
      <3>1. C' = C /\ Avail' = Avail /\ Live' /\ \A w \in W : Item(w)' = Item(w)
        BY <2>0, <2>2 DEF C, Avail, Live, Item, Dist
      <3>2. ~(cst = "send" /\ v = now) /\ wst[v] # "panicked"
        BY <2>0, <2>2 DEF OInv
      <3>3. Item(v) <= Avail /\ Holds(v, Item(v)) /\ toW[v] = <<>> /\ witem[v] = Item(v) /\ fromW[v] = <<>>
        BY <2>0, <2>2, <3>2 DEF OInv, Holds, Idle
      <3>4. ASSUME NEW w \in W, w # v
            PROVE toW'[w] = toW[w] /\ wst'[w] = wst[w] /\ witem'[w] = witem[w] /\ fromW'[w] = fromW[w]
        BY <1>6, <3>4, <2>0, <1>t DEF WRun
      <3>5. \/ wst'[v] = "panicked" /\ fromW'[v] = <<>>
            \/ Holds(v, Item(v))'
        <4>1. CASE witem[v] \in Panics
          BY <1>6, <4>1, <3>3, <1>t DEF WRun
        <4>2. CASE witem[v] \notin Panics
          <5>1. wst'[v] = "recv" /\ fromW'[v] = Append(fromW[v], witem[v])
            BY <1>6, <4>2, <3>0, <1>t DEF WRun
          <5>2. fromW'[v] = <<Item(v)>> /\ toW'[v] = <<>>
            BY <5>1, <3>3, <2>0, <1>t, OneSeq
          <5> QED BY <5>1, <5>2, <3>1 DEF Holds
        <4> QED BY <4>1, <4>2
      <3> QED BY <3>0, <3>1, <3>2, <3>3, <3>4, <3>5, <2>0, <2>2 DEF OInv, Order, Holds, Idle
    <2> QED BY <2>1, <2>2
  <1>7. CASE Finished
    BY <1>7 DEF Finished, OInv, vars, Order, Live, C, Avail, Item, Dist, Holds, Idle
  <1>8. CASE UNCHANGED vars
    BY <1>8 DEF OInv, vars, Order, Live, C, Avail, Item, Dist, Holds, Idle
  <1> QED BY <1>1, <1>2, <1>3, <1>4, <1>5, <1>6, <1>7, <1>8 DEF Next, Consumer, Worker

THEOREM OrderForAllInputs == Spec => [](Order /\ NoSilentTruncation)
  <1>1. Spec => []Inv
    BY InitInv, NextInv, PTL DEF Spec
  <1>2. Spec => [](Inv /\ OInv)
    BY <1>1, InitInv, InitOInv, NextInv, NextOInv, PTL DEF Spec
  <1>3. OInv => Order /\ NoSilentTruncation
    BY DEF OInv, NoSilentTruncation
  <1> QED BY <1>2, <1>3, PTL
===============================================================================
