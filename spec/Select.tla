-------------------------------- MODULE Select --------------------------------
(* Shard selection (dataset_iteration.py:52-124, shard_paths_dataset): filter by a caller-supplied      *)
(* predicate -> refuse an empty selection -> keep the first k shards -> keep at most lim shards per        *)
(* distinct custom-metadata value.  Shards are identified by their position in the split's shard list;     *)
(* a shard is [md |-> value]; a predicate is [nof |-> TRUE] (absent) or [nof |-> FALSE, acc |-> set of accepted metadata values].     *)
EXTENDS Naturals, Sequences, FiniteSets, TLC, Json, IOUtils

CONSTANTS MaxLen, MDV, MaxK, MaxLim,
          LimitFirst   \* TRUE: per-metadata limit applied before the first-k cut (only to show the order matters)

NoneV == 99                      \* option absent (None); 0 is falsy in the code and means the same

\* :84-95  filter
NoFilter == [nof |-> TRUE, acc |-> {}]
Accepts(pred, v) == pred.nof \/ v \in pred.acc
Filtered(mds, pred) == SelectSeq([i \in 1..Len(mds) |-> i], LAMBDA i : Accepts(pred, mds[i]))
\* :103-104 truncate (a falsy k keeps everything)
FirstK(ix, k) == IF k = NoneV \/ k = 0 \/ k >= Len(ix) THEN ix ELSE SubSeq(ix, 1, k)
\* :108-116 per-metadata limit, counting in list order
RECURSIVE Limit(_, _, _, _)
Limit(mds, ix, lim, acc) ==
    IF ix = <<>> THEN acc
    ELSE LET i == Head(ix)
             seen == Cardinality({j \in 1..Len(acc) : mds[acc[j]] = mds[i]})
         IN Limit(mds, Tail(ix), lim, IF seen < lim THEN Append(acc, i) ELSE acc)
\* result: [err |-> TRUE] (the selection is empty: ValueError) or [err |-> FALSE, sel |-> positions]
Select(mds, pred, k, lim) ==
    LET f == Filtered(mds, pred) IN
    IF f = <<>> THEN [err |-> TRUE, sel |-> <<>>]                              \* :97-100
    ELSE IF LimitFirst
         THEN [err |-> FALSE, sel |-> FirstK(IF lim = NoneV \/ lim = 0 THEN f ELSE Limit(mds, f, lim, <<>>), k)]
    ELSE LET t == FirstK(f, k) IN
         [err |-> FALSE, sel |-> IF lim = NoneV \/ lim = 0 THEN t ELSE Limit(mds, t, lim, <<>>)]

(* ---- the cell space, one initial state per cell ------------------------------------------------ *)
VARIABLES mds, pred, k, lim
vars == <<mds, pred, k, lim>>
Seqs(n) == UNION {[1..m -> MDV] : m \in 0..n}
Init == /\ mds \in Seqs(MaxLen) /\ pred \in {[nof |-> FALSE, acc |-> a] : a \in SUBSET MDV} \cup {NoFilter}
        /\ k \in (0..MaxK) \cup {NoneV} /\ lim \in (0..MaxLim) \cup {NoneV}
Next == FALSE /\ UNCHANGED vars
Spec == Init /\ [][Next]_vars

RR == Select(mds, pred, k, lim)
R == RR.sel
Ok == ~RR.err
IsSubseqIdx(s) == \A i \in 1..Len(s) - 1 : s[i] < s[i + 1]
\* meta-properties of the routine
SubsequenceOfInput == Ok => (IsSubseqIdx(R) /\ \A i \in 1..Len(R) : R[i] \in 1..Len(mds))
EmptyIsError == RR.err <=> (Filtered(mds, pred) = <<>>)
FilterRespected == Ok => \A i \in 1..Len(R) : Accepts(pred, mds[R[i]])
TruncationBeforeLimit ==      \* the first-k cut is taken on the filtered list, the limit on what survives the cut
    (Ok /\ k # NoneV /\ k > 0) => \A i \in 1..Len(R) :
        Cardinality({j \in 1..R[i] : Accepts(pred, mds[j])}) <= k
LimitRespected ==
    (Ok /\ lim # NoneV /\ lim > 0) =>
        \A v \in MDV : Cardinality({i \in 1..Len(R) : mds[R[i]] = v}) <= lim
LimitKeepsEarliest ==         \* a shard is dropped by the limit only if lim earlier shards of its value were kept
    (Ok /\ lim # NoneV /\ lim > 0) =>
        \A i \in 1..Len(FirstK(Filtered(mds, pred), k)) :
            LET x == FirstK(Filtered(mds, pred), k)[i] IN
            (\A j \in 1..Len(R) : R[j] # x) =>
                Cardinality({j \in 1..Len(R) : R[j] < x /\ mds[R[j]] = mds[x]}) = lim
NoOptionIsIdentity == (pred.nof /\ (k = NoneV \/ k = 0) /\ (lim = NoneV \/ lim = 0) /\ mds # <<>>) =>
                          (Ok /\ R = [i \in 1..Len(mds) |-> i])
OnlyLimitOrCutDrops ==        \* without k and lim every accepted shard is selected
    (Ok /\ (k = NoneV \/ k = 0) /\ (lim = NoneV \/ lim = 0)) => R = Filtered(mds, pred)
===============================================================================
