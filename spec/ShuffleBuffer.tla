----------------------------- MODULE ShuffleBuffer -----------------------------
(* itertools.shuffle_buffer (itertools.py:97-135, async twin :54-94) as a step machine over an abstract     *)
(* source.  Source element number k is the number k (finite source 1..N) or, for the cyclic source of      *)
(* period N used by repeating iteration, epoch * 100 + position.  Random choices are nondeterministic.     *)
EXTENDS Naturals, Sequences, FiniteSets

CONSTANTS N,        \* length of the source (period when Cyclic)
          B,        \* buffer_size (>= 1)
          Cyclic,   \* TRUE: itertools.cycle over the N elements - never ends
          MaxOut    \* exploration bound for the cyclic case (state constraint)

VARIABLES pulled, buf, out, pc, newel
vars == <<pulled, buf, out, pc, newel>>

Elem(k) == IF Cyclic THEN ((k - 1) \div N) * 100 + ((k - 1) % N) + 1 ELSE k
HasMore == Cyclic \/ pulled < N
Init == pulled = 0 /\ buf = <<>> /\ out = <<>> /\ pc = "fill" /\ newel = 0

\* :113-116  for _, item in zip(range(buffer_size), iterable): buffer.append(item)
FillPull ==
    /\ pc = "fill" /\ Len(buf) < B /\ HasMore
    /\ pulled' = pulled + 1 /\ buf' = Append(buf, Elem(pulled + 1))
    /\ UNCHANGED <<out, pc, newel>>
FillEnd ==      \* the range is exhausted (buffer full) or the source ended while filling
    /\ pc = "fill" /\ (Len(buf) = B \/ ~HasMore)
    /\ pc' = IF Len(buf) = B THEN "pull" ELSE "flush"
    /\ UNCHANGED <<pulled, buf, out, newel>>
\* :120-124  new_element = next(iterable)  |  StopIteration -> break
LoopPull ==
    /\ pc = "pull"
    /\ IF HasMore THEN pulled' = pulled + 1 /\ newel' = Elem(pulled + 1) /\ pc' = "yield"
       ELSE pc' = "flush" /\ UNCHANGED <<pulled, newel>>
    /\ UNCHANGED <<buf, out>>
\* :127-129  i = r % len(buffer); yield buffer[i]; buffer[i] = new_element
LoopYield(i) ==
    /\ pc = "yield" /\ i \in 1..Len(buf)
    /\ out' = Append(out, buf[i]) /\ buf' = [buf EXCEPT ![i] = newel] /\ pc' = "pull"
    /\ UNCHANGED <<pulled, newel>>
\* :134-135  random.shuffle(buffer); yield from buffer   (one element per step, any order)
Flush(i) ==
    /\ pc = "flush" /\ i \in 1..Len(buf)
    /\ out' = Append(out, buf[i])
    /\ buf' = [j \in 1..Len(buf) - 1 |-> IF j < i THEN buf[j] ELSE buf[j + 1]]
    /\ UNCHANGED <<pulled, pc, newel>>
Done == pc = "flush" /\ buf = <<>> /\ pc' = "done" /\ UNCHANGED <<pulled, buf, out, newel>>
Finished == pc = "done" /\ UNCHANGED vars
Next == FillPull \/ FillEnd \/ LoopPull \/ (\E i \in 1..B : LoopYield(i) \/ Flush(i)) \/ Done \/ Finished
Spec == Init /\ [][Next]_vars
Bounded == Len(out) <= MaxOut

SeqSet(s) == {s[i] : i \in 1..Len(s)}
NoDup(s) == \A i, j \in 1..Len(s) : i # j => s[i] # s[j]
Pulled == {Elem(k) : k \in 1..pulled}
\* one element out per element consumed, then the remainder: nothing lost, nothing duplicated  (C02)
BagPreserving == /\ NoDup(out) /\ SeqSet(out) \subseteq Pulled
                 /\ SeqSet(out) \cap SeqSet(buf) = {}
                 /\ (pc = "done" => SeqSet(out) = {Elem(k) : k \in 1..N} /\ pulled = N)
\* read-ahead bounded by the buffer size, never by the length of the source  (C14)
ReadAhead == pulled - Len(out) <= B + 1
\* an endless source never blocks the consumer: some step is always enabled and a yield comes within two steps (C14, C19)
Productive == Cyclic => pc \in {"fill", "pull", "yield"}
\* only elements of the source appear, each epoch element at most once  (C19)
OnlySourceElements == \A i \in 1..Len(out) : (out[i] % 100) \in 1..N
===============================================================================
