-------------------------------- MODULE BatchMap --------------------------------
(* The unshuffled concurrent path (dataset_iteration.py:576-592): shard paths are taken in batches of P,     *)
(* each batch is mapped by an ordered executor map (workers finish in any order, results are consumed in     *)
(* submission order), the decoded shards are chained; this repeats until an empty batch.                     *)
(* Shard k holds Lens[k] examples; example j of shard k is the number 10 * k + j.  Fails: shards whose       *)
(* decoding raises.                                                                                          *)
EXTENDS Naturals, Sequences, FiniteSets

CONSTANTS Lens, P, Fails,
          OneBatch     \* TRUE: only the first batch is processed (`if batch` instead of `while batch`) - sanity only

VARIABLES taken,     \* shard paths pulled from the path iterator so far
          fin,       \* set of shards whose worker has finished
          cur,       \* [k, pos]: shard being yielded, examples already yielded from it
          out, pc
vars == <<taken, fin, cur, out, pc>>
K == Len(Lens)
Min(a, b) == IF a < b THEN a ELSE b

Init == taken = 0 /\ fin = {} /\ cur = [k |-> 1, pos |-> 0] /\ out = <<>> /\ pc = "batch"
\* batch = list(islice(paths, P)) ; executor.map submits the whole batch at once
TakeBatch ==
    /\ pc = "batch"
    /\ IF taken < K /\ (~OneBatch \/ taken = 0)
       THEN taken' = Min(K, taken + P) /\ pc' = "run"
       ELSE pc' = "done" /\ UNCHANGED taken
    /\ UNCHANGED <<fin, cur, out>>
\* a worker thread finishes decoding shard k (any order within the submitted ones)
Finish(k) == /\ k \in 1..taken /\ k \notin fin /\ fin' = fin \cup {k} /\ UNCHANGED <<taken, cur, out, pc>>
\* the consumer takes the next example: results are consumed in submission order
Yield ==
    /\ pc = "run" /\ cur.k <= taken /\ cur.k \in fin
    /\ IF cur.k \in Fails THEN pc' = "raised" /\ UNCHANGED <<cur, out>>          \* the ordered map re-raises
       ELSE IF cur.pos < Lens[cur.k]
            THEN out' = Append(out, 10 * cur.k + cur.pos + 1) /\ cur' = [cur EXCEPT !.pos = @ + 1] /\ UNCHANGED pc
            ELSE /\ cur' = [k |-> cur.k + 1, pos |-> 0] /\ UNCHANGED out
                 /\ pc' = IF cur.k + 1 > taken THEN "batch" ELSE "run"
    /\ UNCHANGED <<taken, fin>>
Finished == pc \in {"done", "raised"} /\ UNCHANGED vars
Next == TakeBatch \/ (\E k \in 1..K : Finish(k)) \/ Yield \/ Finished
Spec == Init /\ [][Next]_vars
FairSpec == Spec /\ WF_vars(TakeBatch \/ Yield) /\ \A k \in 1..K : WF_vars(Finish(k))

\* (a recursive function rather than a RECURSIVE operator so that the proof system accepts the module too)
ExpectedFrom[k \in 1..K + 1] == IF k > K THEN <<>> ELSE [j \in 1..Lens[k] |-> 10 * k + j] \o ExpectedFrom[k + 1]
Expected(k) == ExpectedFrom[k]
IsPrefix(a, b) == Len(a) <= Len(b) /\ SubSeq(b, 1, Len(a)) = a
\* examples come out in shard order and in order within the shard, whatever the completion order  (C03)
OrderPreserving == IsPrefix(out, Expected(1))
\* a normal end means every example was delivered  (C02); never a normal end after a failing shard  (C07)
Complete == pc = "done" => (out = Expected(1) /\ Fails = {})
\* at most P shards are decoded ahead of the consumer  (C14)
ReadAhead == taken - (cur.k - 1) <= P
Terminates == <>(pc \in {"done", "raised"})
FaultSurfaces == (Fails # {}) => <>(pc = "raised")
===============================================================================
