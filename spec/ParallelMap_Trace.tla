--------------------------- MODULE ParallelMap_Trace ---------------------------
(* Validates event logs of the real parallel_map (recorded by /verif/rust_harness: function starts and        *)
(* finishes, values returned by next(), drop, join) against ParallelMap.tla.                               *)
EXTENDS ParallelMap, Json, IOUtils, TLC, TLCExt
VARIABLES tid, l
tvars == <<vars, tid, l>>
TraceLogs == JsonDeserialize(IOEnv.TRACE_FILE)
\* each trace: [panics: Seq(item), drop: Nat, events: Seq([op, x])]
Ev == TraceLogs[tid].events[l]
More == l <= Len(TraceLogs[tid].events)
TInit == /\ tid \in 1..Len(TraceLogs) /\ l = 1 /\ TLCSet(tid, 1) /\ Init
         /\ Panics = {TraceLogs[tid].panics[i] : i \in 1..Len(TraceLogs[tid].panics)}
         /\ DropAfter = TraceLogs[tid].drop

Holder(x) == {w \in W : toW[w] # <<>> /\ Head(toW[w]) = x /\ wst[w] = "recv"}
Runner(x) == {w \in W : wst[w] = "run" /\ witem[w] = x}
TStart == Ev.op = "start" /\ \E w \in Holder(Ev.x) : WRecv(w)
TFinish == Ev.op \in {"finish", "panicking"} /\ \E w \in Runner(Ev.x) : WRun(w)
          /\ (Ev.op = "panicking" <=> Ev.x \in Panics)
\* one call of next(): recv, then send of the next task (CRecv followed by CSend, written out as one step)
TRet == /\ Ev.op = "ret" /\ cst = "idle" /\ Wn > 0
        /\ IF Ev.x # 0
           THEN /\ fromW[now] # <<>> /\ Head(fromW[now]) = Ev.x
                /\ out' = Append(out, Ev.x)
                /\ fromW' = [fromW EXCEPT ![now] = Tail(@)]
                /\ cst' = IF Len(out) + 1 = DropAfter THEN "drop" ELSE "idle"
           ELSE /\ fromW[now] = <<>> /\ Gone(now) /\ ~(Fixed /\ wst[now] = "panicked")
                /\ out' = out /\ fromW' = fromW /\ cst' = "ended"
        /\ toW' = [toW EXCEPT ![now] = Append(@, NextItem)]
        /\ nxt' = IF nxt <= N THEN nxt + 1 ELSE nxt
        /\ now' = (now % Wn) + 1
        /\ UNCHANGED <<wst, witem, rxalive, Panics, DropAfter>>
\* repaired code: next() raises when the worker it waits for has panicked
TRetPanic == Ev.op = "retpanic" /\ CRecv /\ cst' = "raised"
TRetEmpty == Ev.op = "ret" /\ Ev.x = 0 /\ Wn = 0 /\ CRecv
TDrop == Ev.op = "dropping" /\ CDrop
TJoin == Ev.op = "joined" /\ CJoin
\* a worker taking the final None is not logged: silent step (at most one per worker)
TSilent == /\ \E w \in W : toW[w] # <<>> /\ Head(toW[w]) = NONE /\ WRecv(w)
           /\ UNCHANGED <<tid, l>>
TNext == \/ /\ More /\ (TStart \/ TFinish \/ TRet \/ TRetPanic \/ TRetEmpty \/ TDrop \/ TJoin)
            /\ l' = l + 1 /\ UNCHANGED tid
         \/ TSilent
TSpec == TInit /\ [][TNext]_tvars
Reach == TLCSet(tid, IF TLCGet(tid) < l THEN l ELSE TLCGet(tid))
Report == \A t \in 1..Len(TraceLogs) : PrintT(<<"REACHED", t, TLCGet(t), Len(TraceLogs[t].events) + 1>>)
===============================================================================
