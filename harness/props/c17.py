"""C17 - paths taken from metadata cannot escape the dataset directory.

Model: PathGuard.tla - every path string with <= MaxComps components over {name, name, ".", "..", ""} and 0..3
leading slashes; invariant Guard(p) => Inside(root, Resolve(Join(root, p))). Binding: every enumerated string is
rendered and (a) compared with pathlib / os.path (model conformance), (b) given to the real validators
(FileInfo, ShardListInfo, ShardsList, the filler's sub-directory check), (c) for accepted strings planted in every
path-valued field of a real dataset's metadata (with a decoy at the place it resolves to) which is then opened,
checked and iterated while every file open is recorded by an audit hook; TLC (PathGuard_Eval) judges (a), (b)."""
from __future__ import annotations

import itertools
import json
import os
import shutil
import sys
import tempfile
import traceback
from pathlib import Path

from .. import dshist as H, tlc
from ..core import Ctx, MachineryError

LEVEL = "model_checking"
COMPS = ("r", "a", ".", "..", "", "..\\a")

_REC = {"on": False, "events": []}
_HOOKED = False


def _hook(event, args):
    if not _REC["on"]:
        return
    if event == "open":
        _REC["events"].append(("open", str(args[0]), str(args[1])))
    elif event in ("os.mkdir", "os.rename", "os.remove"):
        _REC["events"].append((event, str(args[0]), ""))


def _ensure_hook():
    global _HOOKED  # pylint: disable=global-statement
    if not _HOOKED:
        sys.addaudithook(_hook)
        _HOOKED = True


def render(base: Path, a: int, comps) -> str:
    """Model root "/" is the scratch directory `base`; the dataset root is base/r."""
    body = "/".join(comps)
    if a == 0:
        return body
    return "/" * a + str(base).lstrip("/") + ("/" + body if body else "")


def observe_strings(task: dict) -> dict:
    """Worker: (a) pathlib conformance, (b) validators, (c) planting for accepted strings."""
    out = {"error": None, "obs": [], "escapes": [], "planted": 0}
    tmp = Path(tempfile.mkdtemp(prefix="verif_c17_")).resolve()
    try:
        _ensure_hook()
        from sedpack.io import Dataset, Metadata
        from sedpack.io.dataset_filler import DatasetFiller, _DatasetFillerContext
        from sedpack.io.file_info import FileInfo
        from sedpack.io.shard_file_metadata import ShardListInfo, ShardsList
        from .. import dsreal, readers
        base = tmp / "b1" / "b2" / "b3" / "b4" / "b5" / "m"
        base.mkdir(parents=True)
        root = base / "r"
        nbase = len(base.parts)

        def fresh_dataset():
            if root.exists():
                shutil.rmtree(root)
            ds = Dataset.create(root, Metadata(description="c17"), dsreal.structure("fb", "", 2, ("md5",)))
            with ds.filler() as f:
                for i in (1, 2, 3):
                    f.write_example(values=dsreal.example(i), split="train")
            with DatasetFiller(ds, relative_path_from_split=Path("sub")) as f:
                f.write_example(values=dsreal.example(4), split="train")
            return Dataset(root)

        ds = fresh_dataset()
        clean = {}
        for dp, _dn, fns in os.walk(root):
            for fn in fns:
                clean[str((Path(dp) / fn).relative_to(root))] = (Path(dp) / fn).read_bytes()
        root_list = json.loads(clean["train/shards_list.json"])
        shard_name = Path(root_list["shard_files"][0]["file_infos"][0]["file_path"]).name
        struct = ds.dataset_structure

        def accepted_by(kind, s):
            try:
                if kind == "shard":
                    FileInfo(file_path=s)
                elif kind == "child":
                    ShardListInfo(shard_list_info_file=FileInfo(file_path=(s + "/" if s else "") + "shards_list.json"))
                elif kind == "self":
                    ShardsList(relative_path_self=Path((s + "/" if s else "") + "shards_list.json"))
                elif kind == "filler":
                    _DatasetFillerContext(root, struct, Path(s))
                return True
            except Exception:  # pylint: disable=broad-except
                return False

        def restore():
            for dp, dn, fns in os.walk(base, topdown=False):
                for fn in fns:
                    full = Path(dp) / fn
                    rel = str(full.relative_to(root)) if str(full).startswith(str(root) + "/") else None
                    if rel is None or rel not in clean:
                        full.unlink()
                for d in dn:
                    try:
                        (Path(dp) / d).rmdir()
                    except OSError:
                        pass
            for rel, data in clean.items():
                (root / rel).parent.mkdir(parents=True, exist_ok=True)
                (root / rel).write_bytes(data)

        def outside(p: str) -> bool:
            q = os.path.realpath(p)
            return q.startswith(str(tmp) + "/") and not (q == str(root) or q.startswith(str(root) + "/"))

        def use_dataset(tag, s):
            """Open / check / iterate with every open recorded; returns escapes."""
            _REC["events"] = []
            _REC["on"] = True
            try:
                try:
                    d2 = Dataset(root)
                    try:
                        d2.check(show_progressbar=False)
                    except Exception:  # pylint: disable=broad-except
                        pass
                    for iface in ("numpy", "concurrent", "async"):
                        try:
                            readers.read_ids(d2, iface, "train", repeat=False, shuffle=0, file_parallelism=2)
                        except Exception:  # pylint: disable=broad-except
                            pass
                    try:
                        for pth in d2.shard_paths_dataset("train"):
                            _REC["events"].append(("path-handed-to-rust/tf", pth, ""))
                    except Exception:  # pylint: disable=broad-except
                        pass
                except Exception:  # pylint: disable=broad-except
                    pass
            finally:
                _REC["on"] = False
            esc = sorted({f"{ev}:{os.path.realpath(p)[len(str(tmp)):]}" for ev, p, _m in _REC["events"] if outside(p)})
            if esc:
                out["escapes"].append({"field": tag, "string": s, "opened": esc[:4]})

        opt_acc, opt_seen = None, []
        if task.get("optimized"):
            import subprocess
            import sys
            child = (
                "import sys, json\n"
                "from pathlib import Path\n"
                "from harness import rustext\n"
                "rustext.SO.exists() and rustext.preload()\n"
                "from sedpack.io.dataset_filler import _DatasetFillerContext\n"
                "from sedpack.io.file_info import FileInfo\n"
                "from sedpack.io.shard_file_metadata import ShardListInfo, ShardsList\n"
                "from harness import dsreal\n"
                "root = Path(sys.argv[1]); struct = dsreal.structure('fb', '', 2, ('md5',))\n"
                "def acc(kind, s):\n"
                "    try:\n"
                "        if kind == 'shard': FileInfo(file_path=s)\n"
                "        elif kind == 'child': ShardListInfo(shard_list_info_file=FileInfo(file_path=(s + '/' if s else '') + 'shards_list.json'))\n"
                "        elif kind == 'self': ShardsList(relative_path_self=Path((s + '/' if s else '') + 'shards_list.json'))\n"
                "        elif kind == 'filler': _DatasetFillerContext(root, struct, Path(s))\n"
                "        return True\n"
                "    except Exception:\n"
                "        return False\n"
                "strings = json.load(sys.stdin)\n"
                "print('RESULT' + json.dumps([{k: acc(k, s) for k in ('shard', 'child', 'self', 'filler')} for s in strings]))\n")
            rendered = [render(base, a, comps) for (a, comps) in task["strings"]]
            pr = subprocess.run([sys.executable, "-O", "-c", child, str(root)], input=json.dumps(rendered),
                                capture_output=True, text=True, timeout=1200,
                                env=dict(os.environ, TF_CPP_MIN_LOG_LEVEL="3"))
            line = next((ln for ln in pr.stdout.splitlines() if ln.startswith("RESULT")), None)
            if pr.returncode != 0 or line is None:
                raise RuntimeError("the python -O child failed:\n" + (pr.stdout + pr.stderr)[-1500:])
            opt_acc = json.loads(line[len("RESULT"):])
            restore()
        for (a, comps) in task["strings"]:
            s = render(base, a, comps)
            pp = Path(s) if s else Path("")
            parts = list(pp.parts)
            isabs = pp.is_absolute()
            if isabs:
                if parts[1:nbase] != list(base.parts[1:]):
                    raise RuntimeError(f"render/pathlib disagree on {s!r}: {parts}")
                mparts = parts[nbase:]
            else:
                mparts = parts
            target = os.path.normpath(os.path.join(str(root), s)) if s else str(root)
            if target.startswith("//"):  # POSIX keeps a leading "//" lexically; Linux resolves it like "/"
                target = "/" + target.lstrip("/")
            inside = target == str(root) or target.startswith(str(root) + "/")
            acc = {k: accepted_by(k, s) for k in ("shard", "child", "self", "filler")}
            if opt_acc is not None:
                # the same four guards evaluated by an interpreter started with -O (assert statements stripped)
                for k in ("shard", "child", "self", "filler"):
                    acc[k + " (python -O)"] = opt_acc[len(opt_seen)][k]
                opt_seen.append(s)
            for k, v in acc.items():
                out["obs"].append({"abs": a, "comps": list(comps), "parts": mparts, "isabs": isabs, "inside": inside,
                                   "accepted": v, "field": k, "string": s})
            if not task["plant"]:
                continue
            # (c) plant the accepted strings (or all of them when the validators cannot be by-passed on load)
            pref = (s + "/") if s else ""
            if acc["shard"]:
                out["planted"] += 1
                j = json.loads(clean["train/shards_list.json"])
                j["shard_files"][0]["file_infos"][0]["file_path"] = pref + shard_name
                (root / "train/shards_list.json").write_text(json.dumps(j))
                dst = Path(os.path.normpath(os.path.join(str(root), pref + shard_name)))
                if str(dst).startswith(str(tmp)):
                    dst.parent.mkdir(parents=True, exist_ok=True)
                    dst.write_bytes(clean["train/" + shard_name])
                use_dataset("shard file_path", s)
                restore()
            if acc["child"]:
                out["planted"] += 1
                j = json.loads(clean["train/shards_list.json"])
                j["children_shard_lists"][0]["shard_list_info_file"]["file_path"] = pref + "shards_list.json"
                (root / "train/shards_list.json").write_text(json.dumps(j))
                dst = Path(os.path.normpath(os.path.join(str(root), pref + "shards_list.json")))
                if str(dst).startswith(str(tmp)) and not dst.exists():
                    dst.parent.mkdir(parents=True, exist_ok=True)
                    dst.write_bytes(clean["train/sub/shards_list.json"])
                use_dataset("child list file_path", s)
                restore()
                j = json.loads(clean["dataset_info.json"])
                j["splits"]["train"]["shard_list_info_file"]["file_path"] = pref + "shards_list.json"
                (root / "dataset_info.json").write_text(json.dumps(j))
                if str(dst).startswith(str(tmp)) and not dst.exists():
                    dst.parent.mkdir(parents=True, exist_ok=True)
                    dst.write_bytes(clean["train/shards_list.json"])
                use_dataset("split list file_path", s)
                restore()
            if acc["filler"]:
                out["planted"] += 1
                _REC["events"] = []
                _REC["on"] = True
                try:
                    try:
                        d2 = Dataset(root)
                        with DatasetFiller(d2, relative_path_from_split=Path(s)) as f:
                            f.write_example(values=dsreal.example(9), split="train")
                    except Exception:  # pylint: disable=broad-except
                        pass
                finally:
                    _REC["on"] = False
                esc = sorted({f"{ev}:{os.path.realpath(p)[len(str(tmp)):]}" for ev, p, m in _REC["events"]
                              if outside(p) and (ev != "open" or any(c in m for c in "wax+"))})
                if esc:
                    out["escapes"].append({"field": "filler sub-directory", "string": s, "opened": esc[:4]})
                restore()
    except Exception:  # pylint: disable=broad-except
        out["error"] = traceback.format_exc()
    finally:
        shutil.rmtree(tmp, ignore_errors=True)
    return out


def run(ctx: Ctx) -> None:
    q = ctx.quick
    maxc = 4 if q else 5
    ctx.assumptions += ["symlinks, case-insensitive file systems and ~ expansion of the root are outside the "
                        "quantifier; a string that resolves inside the root by a detour may be accepted",
                        "file opens by TensorFlow / the Rust reader are judged through the paths handed to them"]
    d = ctx.tmp / "mc"
    d.mkdir()
    consts = {"MaxComps": maxc, "Comps": frozenset(COMPS), "RejectAbsolute": True}
    cfg = tlc.make_cfg(d / "pg.cfg", spec="Spec", constants=consts, invariants=["GuardIsSafe", "GuardAcceptsPlain"])
    res = tlc.run("PathGuard", cfg, workers=8, coverage=False)
    ctx.add_tlc(f"strings_{maxc}", res)
    if not res.ok:
        raise MachineryError(f"PathGuard.tla violates {res.violated}")
    cfg2 = tlc.make_cfg(d / "pg2.cfg", spec="Spec", constants=dict(consts, MaxComps=2, RejectAbsolute=False),
                        invariants=["GuardIsSafe"])
    res2 = tlc.run("PathGuard", cfg2, workers=2, coverage=False)
    if "GuardIsSafe" not in res2.violated:
        raise MachineryError("model sanity: guards that accept absolute paths were not refuted")
    ctx.cov["model_sanity"] = "guards that accept absolute paths violate GuardIsSafe in the model"
    ctx.log(f"TLC: {res.distinct} path strings, GuardIsSafe holds")

    strings = [(a, list(c)) for a in range(4) for n in range(maxc + 1) for c in itertools.product(COMPS, repeat=n)
               if not (a == 0 and n > 0 and c[0] == "")]
    nw = 14
    tasks = [{"strings": strings[i::nw], "plant": True} for i in range(nw)]
    # two of the workers also evaluate the guards in an interpreter started with -O: how the interpreter was launched is
    # part of the environment, and a guard must not be an assert statement
    for t in tasks[:2] if ctx.quick else tasks[:6]:
        t["optimized"] = True
    try:
        outs = H.run_histories(tasks, fn=observe_strings)
    finally:
        H.shutdown_pool()
    obs = []
    planted = 0
    for o in outs:
        if o["error"]:
            raise MachineryError(o["error"])
        obs += o["obs"]
        planted += o["planted"]
        for e in o["escapes"]:
            kind = "absolute" if e["string"].startswith("/") else "relative"
            ctx.violation(f"C17|kind=escape|field={e['field'].split()[0]}|string={kind}",
                          f"{e['field']} = {e['string']!r} made the library touch {e['opened']} outside the dataset "
                          f"root", e)
    of = ctx.tmp / "obs.json"
    n_unsafe = n_guard = 0
    for c0 in range(0, len(obs), 20000):
        chunk = obs[c0:c0 + 20000]
        of.write_text(json.dumps([{k: v for k, v in o.items() if k not in ("field", "string")} for o in chunk]))
        ecfg = tlc.make_cfg(ctx.tmp / "ev.cfg", spec="ESpec", constants=consts, invariants=["Judge"])
        r = tlc.run("PathGuard_Eval", ecfg, workers=1, coverage=False, cont=True, env={"OBS_FILE": str(of)},
                    timeout=3000)
        if r.distinct != len(chunk):
            raise MachineryError(f"PathGuard_Eval judged {r.distinct} of {len(chunk)}\n{r.out[-2000:]}")
        for p in r.prints:
            if not (isinstance(p, tuple) and len(p) == 2):
                continue
            o = chunk[p[1] - 1]
            if p[0] == "MODEL-MISMATCH":
                raise MachineryError(f"PathGuard.tla disagrees with pathlib/os.path on {o['string']!r}: {o}")
            if p[0] == "UNSAFE":
                n_unsafe += 1
                kind = "absolute" if o["isabs"] else "relative"
                ctx.violation(f"C17|kind=accepted-outside|field={o['field']}|string={kind}",
                              f"the {o['field']} validator accepts {o['string']!r}, which resolves outside the "
                              f"dataset root", o)
            if p[0] == "GUARD-DIFFERS":
                n_guard += 1
                if n_guard <= 3:
                    ctx.add_drift(f"validator for {o['field']} {'accepts' if o['accepted'] else 'rejects'} "
                                  f"{o['string']!r}, Guard says otherwise", o)
    ctx.cov["strings"] = len(strings)
    ctx.cov["observations_judged_by_tlc"] = len(obs)
    ctx.cov["traces_validated_against_impl"] = len(obs) - n_unsafe
    ctx.cov["planted_in_real_metadata"] = planted
    ctx.cov["exhaustive"] = True
    ctx.sample({"kind": "string judged", **obs[len(obs) // 3]})
    ctx.sample({"kind": "string judged", **obs[-7]})
    ctx.log(f"{len(strings)} strings x 4 fields judged by TLC ({n_unsafe} unsafe acceptances, {n_guard} guard "
            f"differences); {planted} accepted strings planted in real metadata and exercised")


def replay(ctx: Ctx, body: dict) -> None:
    w = body["witness"]
    if "abs" in w:
        strings = [(w["abs"], w["comps"])]
    else:
        raise MachineryError("replay: re-run ./check C17 (escape witnesses carry the rendered string only)")
    o = observe_strings({"strings": strings, "plant": True})
    if o["error"]:
        raise MachineryError(o["error"])
    ctx.cov.update({"states": 1, "transitions": 1, "traces_validated_against_impl": len(o["obs"])})
    for e in o["escapes"]:
        ctx.violation("C17|kind=escape", f"{e}", e)
    for ob in o["obs"]:
        if ob["accepted"] and not ob["inside"]:
            ctx.violation(f"C17|kind=accepted-outside|field={ob['field']}", f"{ob['string']!r} accepted", ob)
