"""C20 - reopening or relocating restores the full dataset; newer formats are refused.

Model: Dataset.tla with the Relocate action (the directory moves, every property of the specification stays
invariant, a fresh Open yields the same handle) and Version.tla (Loads(v) <=> v <= running, component-wise in
MAJOR, MINOR, PATCH order). Binding: TLC behaviours with Relocate steps are replayed with real moves / copies to
nested, Unicode and blank-containing targets, reopened through absolute and cwd-relative paths, then checked,
iterated and written further, the projected state compared with the specification's and judged by TLC; every
version triple around the running version is patched into dataset_info.json and load/refuse judged by TLC;
descriptions drawn by hypothesis (derandomized) must be reconstructed exactly by a fresh open."""
from __future__ import annotations

import json
import os
import shutil
import tempfile
import traceback
from pathlib import Path

from .. import dshist as H, tlc
from ..core import Ctx, MachineryError
from . import _dsfamily as F

LEVEL = "model_checking"
FS = frozenset


def version_trials(task: dict) -> dict:
    out = {"error": None, "obs": []}
    tmp = Path(tempfile.mkdtemp(prefix="verif_c20v_"))
    try:
        import sedpack
        from sedpack.io import Dataset, Metadata
        from .. import dsreal
        running = [int(x) for x in sedpack.__version__.split(".")[:3]]
        root = tmp / "ds"
        ds = Dataset.create(root, Metadata(description="v"), dsreal.structure("fb", "", 2, ("md5",)))
        with ds.filler() as f:
            f.write_example(values=dsreal.example(1), split="train")
        info_path = root / "dataset_info.json"
        clean = info_path.read_text()
        cand = []
        for i, r in enumerate(running):
            vals = sorted({r, r + 1, r + 10, 10 * r + 1} | ({r - 1} if r > 0 else set()) | {0})
            cand.append(vals)
        for a in cand[0]:
            for b in cand[1]:
                for c in cand[2]:
                    j = json.loads(clean)
                    j["metadata"]["sedpack_version"] = f"{a}.{b}.{c}"
                    info_path.write_text(json.dumps(j))
                    try:
                        Dataset(root)
                        loaded = True
                    except Exception:  # pylint: disable=broad-except
                        loaded = False
                    out["obs"].append({"v": [a, b, c], "running": running, "loaded": loaded})
        info_path.write_text(clean)
        # datasets REALLY written by a library that calls itself a different version (a writer process whose
        # sedpack.__version__ is set before sedpack.io is imported): what the writer records about itself is part of
        # the gate - a description edited by hand cannot show a writer that forgets to record its version
        import subprocess
        import sys
        a, b, c = running
        others = [(a, b, c), (a, b, c + 1), (a, b + 1, 0), (a + 1, 0, 0)] + ([(a, b, c - 1)] if c > 0 else []) + \
                 ([(a, b - 1, c + 5)] if b > 0 else [])
        script = (
            "import sys, sedpack\n"
            "sedpack.__version__ = sys.argv[2]\n"
            "from pathlib import Path\n"
            "from harness import rustext\n"
            "rustext.SO.exists() and rustext.preload()\n"
            "from sedpack.io import Dataset, Metadata\n"
            "from harness import dsreal\n"
            "ds = Dataset.create(Path(sys.argv[1]), Metadata(description='w'), dsreal.structure('fb', '', 2, ('md5',)))\n"
            "f = ds.filler()\n"
            "ctx = f.__enter__()\n"
            "ctx.write_example(values=dsreal.example(1), split='train')\n"
            "f.__exit__(None, None, None)\n")
        procs = []
        for k, v in enumerate(others):
            wroot = tmp / f"w{k}"
            procs.append((v, wroot, subprocess.Popen([sys.executable, "-c", script, str(wroot), ".".join(map(str, v))],
                                                     stdout=subprocess.PIPE, stderr=subprocess.STDOUT, text=True,
                                                     env=dict(os.environ, TF_CPP_MIN_LOG_LEVEL="3"))))
        for v, wroot, pr in procs:
            so, _ = pr.communicate(timeout=900)
            if pr.returncode != 0:
                out["error"] = f"writer process for version {v} failed:\n{so[-1500:]}"
                return out
            try:
                Dataset(wroot)
                loaded = True
            except Exception:  # pylint: disable=broad-except
                loaded = False
            out["obs"].append({"v": list(v), "running": running, "loaded": loaded, "real_writer": True})
    except Exception:  # pylint: disable=broad-except
        out["error"] = traceback.format_exc()
    finally:
        shutil.rmtree(tmp, ignore_errors=True)
    return out


def description_roundtrips(task: dict) -> dict:
    """Worker: hypothesis-generated descriptions must be reconstructed exactly by a fresh open."""
    out = {"error": None, "n": 0, "failures": [], "sample": None}
    try:
        import numpy as np
        from hypothesis import given, settings, strategies as st, HealthCheck, seed
        from sedpack.io import Dataset, Metadata
        from sedpack.io.metadata import Attribute, DatasetStructure
        from .. import dsreal

        text = st.text(alphabet=st.characters(blacklist_categories=("Cs",)), max_size=12)
        leaf = st.one_of(st.none(), st.booleans(), st.integers(-2**53, 2**53),
                         st.floats(allow_nan=False, allow_infinity=False, width=64), text)
        jsonv = st.recursive(leaf, lambda ch: st.one_of(st.lists(ch, max_size=3),
                                                        st.dictionaries(text, ch, max_size=3)), max_leaves=8)
        jdict = st.dictionaries(text, jsonv, max_size=3)
        combos = [(f, c) for f, cs in dsreal.FORMAT_COMPRESSIONS.items() for c in cs]
        algos = ["md5", "sha1", "sha224", "sha256", "sha384", "sha512", "sha3_224", "sha3_256", "sha3_384",
                 "sha3_512", "xxh32", "xxh64", "xxh128"]

        @settings(max_examples=task["n"], derandomize=True, database=None, deadline=None,
                  suppress_health_check=list(HealthCheck))
        @given(desc=text, lic=text, ver=text, dl=text, cm=jdict, acm=jdict, scm=jdict,
               combo=st.sampled_from(combos), hs=st.lists(st.sampled_from(algos), max_size=3),
               eps=st.integers(1, 4))
        def one(desc, lic, ver, dl, cm, acm, scm, combo, hs, eps):
            tmp = Path(tempfile.mkdtemp(prefix="verif_c20d_"))
            try:
                fmt, comp = combo
                structure = DatasetStructure(
                    saved_data_description=[Attribute(name="id", dtype="int64", shape=(1,), custom_metadata=acm),
                                            Attribute(name="x", dtype="float32", shape=(3,))],
                    compression=comp, examples_per_shard=eps, shard_file_type=fmt,
                    hash_checksum_algorithms=tuple(hs))
                md = Metadata(description=desc, dataset_license=lic, dataset_version=ver, download_from=dl,
                              custom_metadata=cm)
                ds = Dataset.create(tmp / "d", md, structure)
                with ds.filler() as f:
                    for i in (1, 2, 3):
                        f.write_example(values=dsreal.example(i), split="train", custom_metadata=scm or None)
                fresh = Dataset(tmp / "d")
                out["n"] += 1
                a = json.loads(ds._dataset_info.model_dump_json())  # pylint: disable=protected-access
                b = json.loads(fresh._dataset_info.model_dump_json())  # pylint: disable=protected-access
                same = ds._dataset_info == fresh._dataset_info  # pylint: disable=protected-access
                shard_md = [s.custom_metadata for s in fresh.shard_info_iterator("train")]
                ok_md = all(m == (scm or {}) for m in shard_md)
                if out["sample"] is None and cm:
                    out["sample"] = {"description": desc, "custom_metadata": cm, "format": fmt, "compression": comp}
                if not same or a != b or not ok_md or fresh.metadata.description != desc \
                        or fresh.metadata.custom_metadata != cm:
                    out["failures"].append({"description": desc, "custom_metadata": repr(cm), "attribute_md": repr(acm),
                                            "shard_md": repr(scm), "format": fmt, "compression": comp,
                                            "hashes": hs, "read_shard_md": repr(shard_md[:1]), "equal": same})
            finally:
                shutil.rmtree(tmp, ignore_errors=True)

        seed(task["seed"])(one)()
    except Exception:  # pylint: disable=broad-except
        out["error"] = traceback.format_exc()
    return out


def run(ctx: Ctx) -> None:
    q = ctx.quick
    c = H.consts
    ctx.assumptions += ["serialisation fidelity of arbitrary text / nested metadata is sampled (hypothesis, "
                        "derandomized), not enumerated; lone surrogates, non-finite numbers and non-string keys are "
                        "not JSON-representable and are not generated",
                        "pre-release / build suffixes are outside 'version triples'"]
    # ---------------------------------------------------------------- 1. models
    res = H.model_check(ctx, "relocate", c(Splits=FS({"train"}), MaxSessions=2, MaxWrites=2, MaxMoves=2,
                                           FillerDirs=FS({(), ("s",)})), workers=8)
    ctx.add_tlc("relocate_2moves", res)
    if not res.ok:
        raise MachineryError(f"Dataset.tla with Relocate violates {res.violated}")
    ctx.log(f"TLC Dataset.tla with Relocate: {res.distinct} distinct states, every invariant holds across moves")
    d = ctx.tmp / "ver"
    d.mkdir()
    for gate, want in (("lex", None), ("major_only", "NewerRefused"), ("string", "NewerRefused")):
        mod, cfg = tlc.make_model(d / gate, "Version", {"Range": frozenset({0, 1, 2, 10, 11}), "Running": (1, 1, 1),
                                                        "Gate": gate},
                                  spec="Spec", invariants=["NewerRefused", "SameOrOlderLoads"])
        r = tlc.run(mod, cfg, workers=2, workdir=d / gate, coverage=False)
        if want is None:
            ctx.add_tlc("version_gate", r)
            if not r.ok:
                raise MachineryError(f"Version.tla violates {r.violated}")
        elif want not in r.violated and "SameOrOlderLoads" not in r.violated:
            raise MachineryError(f"model sanity: gate variant {gate} not refuted")
    ctx.cov["model_sanity"] = "gates comparing only the major component / digit strings are refuted by TLC"

    # ---------------------------------------------------------------- 2. relocation histories
    sims = [("reloc_atclose", c(MaxSessions=3, MaxWrites=3, MaxK=2, MaxMoves=3, MDs=FS({"None", "A"})),
             24 if q else 300, 50, F._targets(ctx, False), 2),
            ("reloc_stream", c(MaxSessions=3, MaxWrites=3, MaxK=2, MaxMoves=3, Streaming=True), 8 if q else 100, 50,
             F._targets(ctx, True), 2),
            # the same without checksum algorithms (hash_checksum_algorithms=()): nothing in the metadata then tells an
            # updated list from the old one, or a moved dataset from the one that used to live at that path
            ("reloc_no_checksums", c(MaxSessions=3, MaxWrites=3, MaxK=2, MaxMoves=3, Hashing=False), 10 if q else 120,
             50, [("fb", "", ()), ("npz", "", ()), ("tfrec", "", ())], 2)]
    tasks = []
    n_moves = 0
    for name, cc, num, depth, targets, eps in sims:
        _r, behs = H.simulate(ctx, name, cc, num=num, depth=depth, seed=ctx.seed + 20)
        for i, b in enumerate(behs):
            n_moves += sum(1 for nm, _a, _s in b if nm == "Relocate")
            fmt, comp, hashes = targets[i % len(targets)]
            tasks.append(H.behaviour_to_task(b, fmt=fmt, compression=comp, hashes=list(hashes), eps=eps, sim=name))
    if n_moves == 0:
        raise MachineryError("vacuous: no Relocate step in the simulated behaviours")
    ctx.cov["relocations_replayed"] = n_moves
    try:
        outs = H.run_histories(tasks)
        F.judge_outputs(ctx, tasks, outs, {"C04", "C05", "C08", "C03", "C10", "C11", "C18", "C06", "R08", "R03"},
                        {"session-failed", "check-failed", "good-write-rejected", "create-again-changed"})
        # ------------------------------------------------------------ 3. version triples, 4. descriptions
        vt = H.run_histories([{}], fn=version_trials)[0]
        nd = 6 if q else 14
        ds_outs = H.run_histories([{"n": 18 if q else 150, "seed": ctx.seed * 100 + i} for i in range(nd)],
                                  fn=description_roundtrips)
    finally:
        H.shutdown_pool()
    if vt["error"]:
        raise MachineryError(vt["error"])
    of = ctx.tmp / "obs.json"
    of.write_text(json.dumps(vt["obs"]))
    mod, cfg = tlc.make_model(ctx.tmp / "vev", "Version_Eval", {"Range": frozenset({0}), "Running": (0, 0, 0),
                                                                "Gate": "lex"}, spec="ESpec", invariants=["Judge"])
    r = tlc.run(mod, cfg, workers=1, workdir=ctx.tmp / "vev", coverage=False, cont=True, env={"OBS_FILE": str(of)})
    if r.distinct != len(vt["obs"]):
        raise MachineryError(f"Version_Eval judged {r.distinct} of {len(vt['obs'])}\n{r.out[-1500:]}")
    for p in r.prints:
        if isinstance(p, tuple) and p and p[0] == "GATE-WRONG":
            o = vt["obs"][p[1] - 1]
            newer = "newer" if not o["loaded"] is False and o["v"] > o["running"] else "older"
            ctx.violation(f"C20|kind=version-gate|case={'newer-loaded' if o['loaded'] else 'older-refused'}",
                          f"a dataset recorded by version {'.'.join(map(str, o['v']))} "
                          f"{'loads' if o['loaded'] else 'is refused'} under running version "
                          f"{'.'.join(map(str, o['running']))}", o)
    ctx.cov["version_triples_judged_by_tlc"] = len(vt["obs"])
    ctx.sample({"kind": "version triple", **vt["obs"][len(vt["obs"]) // 2]})
    n_desc = 0
    for o in ds_outs:
        if o["error"]:
            raise MachineryError(o["error"])
        n_desc += o["n"]
        for f in o["failures"][:3]:
            ctx.violation(f"C20|kind=description-roundtrip|fmt={f['format']}",
                          f"a fresh open does not reconstruct the description the writer held: {json.dumps(f)[:400]}",
                          f)
        if o["sample"]:
            ctx.sample({"kind": "description round-trip", **o["sample"]}, limit=8)
    ctx.cov["descriptions_round_tripped"] = n_desc
    ctx.log(f"{n_moves} relocations replayed inside {len(tasks)} histories; {len(vt['obs'])} version triples judged by "
            f"TLC; {n_desc} hypothesis-generated descriptions round-tripped")


def replay(ctx: Ctx, body: dict) -> None:
    w = body["witness"]
    if "task" in w:
        F.replay_family(ctx, body, {"C04", "C05", "C08", "C03", "C10", "C11", "C18", "C06", "R08", "R03"},
                        {"session-failed", "check-failed", "good-write-rejected", "create-again-changed"})
        H.shutdown_pool()
    else:
        raise MachineryError("replay: re-run ./check C20 (version / description witnesses are regenerated from the seed)")
