"""Loads the Rust extension rebuilt from /repo's working tree (tools/build_rust.sh) as sedpack._sedpack_rs,
before sedpack.io is imported, so that the stale git-ignored .so inside /repo/src is never used."""
from __future__ import annotations

import importlib.util
import subprocess
import sys
from pathlib import Path

VERIF = Path(__file__).resolve().parent.parent
SO = VERIF / "build" / "ext" / "_sedpack_rs.cpython-312-x86_64-linux-gnu.so"


def build() -> None:
    p = subprocess.run([str(VERIF / "tools" / "build_rust.sh")], capture_output=True, text=True, timeout=1800)
    if p.returncode != 0:
        raise RuntimeError("cargo build of the Rust extension failed:\n" + p.stdout[-3000:] + p.stderr[-2000:])


def preload() -> None:
    """Must be called before the first `import sedpack.io`."""
    if "sedpack.io.dataset_iteration" in sys.modules:
        mod = sys.modules.get("sedpack._sedpack_rs")
        if mod is not None and getattr(mod, "__file__", "") == str(SO):
            return
        raise RuntimeError("sedpack.io was imported before the rebuilt Rust extension could be loaded")
    import sedpack
    spec = importlib.util.spec_from_file_location("sedpack._sedpack_rs", SO)
    mod = importlib.util.module_from_spec(spec)
    spec.loader.exec_module(mod)
    sys.modules["sedpack._sedpack_rs"] = mod
    sedpack._sedpack_rs = mod  # pylint: disable=protected-access
