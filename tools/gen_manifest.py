#!/usr/bin/env python3
"""Generates /verif/MANIFEST.json from the table below (single source of truth for the interface)."""
import json
from pathlib import Path

VERIF = Path(__file__).resolve().parent.parent

CHECKS = {
    "C13": dict(
        engine="LazyPool.tla",
        category="model_checking",
        text="TLC explores every interleaving of the consumer and T Collector threads at queue-operation "
             "granularity (T<=3, N around T and 2T+2, every failing position, every abandon position, pool reuse), "
             "safety invariants plus termination / fault-surfacing under weak fairness; the at-most-once half of the "
             "property (every result handed out is an input and none is handed out twice) and the in-flight bound "
             "are additionally proved for EVERY T, N, failing set, abandon position, prefill and number of pool "
             "reuses with the TLA+ proof system (spec/proofs/LazyPool_OnceProofs.tla, 819 obligations: work queue, "
             "workers' hands, result queue, consumer's hand and output hold pairwise disjoint sets of inputs). The model is bound to the "
             "real pool both ways: an edge cover of the T<=2 state graphs is imposed on the real threads through a "
             "queue shim with state comparison after every step; seeded schedules explore the real threads with "
             "structural deadlock detection; free-running executions logged inside the queue mutex are validated "
             "against LazyPool_Trace.tla.",
        design_ref="DESIGN.md 3.2, 4.3, 5/C13",
        note="Trusted: queue.Queue, CPython threading, TLC. Exhaustive only for the small constants listed in "
             "the evidence; larger instances are sampled by seeded schedules.",
        technique="TLA+ model checking (TLC; TLAPS proofs of at-most-once and the in-flight bound for all constants) + schedule replay into the real threads (virtual-time expiry of timed waits) + trace validation",
    ),
}

_DS_NOTE = ("Trusted: TLC, the direct decoders (numpy / flatbuffers accessors / tf.io) used to project shard files, "
            "hashlib/xxhash used to resolve recorded digests. Exhaustive for the small constants in the evidence "
            "(<=3 sessions, <=5 writes, directories {root, s, s/t, fresh writer dirs}); longer histories are "
            "sampled by TLC simulation and replayed on fb, npz and tfrec datasets.")
_DS_TECH = "TLA+ model checking (TLC) + replay of TLC behaviours on real datasets + TLC evaluation of the property predicates on projected states"


def _ds(text, ref):
    return dict(engine="Dataset.tla", category="model_checking", text=text, design_ref=ref, note=_DS_NOTE,
                technique=_DS_TECH)


CHECKS.update({
    "C04": _ds("C04_Exact of Dataset.tla is an invariant of every quiescent state of all session histories within the "
               "bounds (root / nested / reused sub-directories, multi-writer calls, reopen or keep the handle); "
               "TLC-generated histories are replayed on real datasets and the same TLA+ predicate is evaluated by "
               "TLC on the state projected from the directory (example counts obtained by decoding every shard "
               "file directly) and the live handle; projected state = specification state at every quiescent point.",
               "DESIGN.md 3.1, 4.2, 5/C04"),
    "C08": _ds("C08_AppendOnly (every split reads back exactly the committed ids) and NoSessionFails are invariants "
               "of Dataset.tla; replayed histories must not raise, the real reader's output is judged by TLC "
               "(R08), and Dataset.create on an existing dataset must raise and leave every byte unchanged.",
               "DESIGN.md 3.1, 4.2, 5/C08"),
    "C10": _ds("C10_Size (1..EPS examples per listed shard; within a session/split a short shard is followed by "
               "another one only across a metadata change) checked by TLC for EPS in {1,2,3} with metadata "
               "changes and rejected writes at every position; same predicate evaluated on projected real states.",
               "DESIGN.md 3.1, 5/C10"),
    "C11": _ds("C11_Label with the caller's metadata modelled as a mutable object (MutateCaller between writes); "
               "copy semantics satisfies it, alias semantics (the repaired defect D3) violates it in the model; "
               "replays pass one dict mutated in place and TLC judges the projected real states; at every quiescent "
               "point the library's own selection by shard metadata is also read back and judged by R11 of "
               "Dataset_Eval.tla (all and only the examples written under a label), including labelled histories "
               "into datasets without checksum algorithms.",
               "DESIGN.md 3.1, 5/C11"),
    "C18": _ds("C18_AllOrNothing: rejected writes (shape violations, encoder failures after the TFRecord file was "
               "opened) at every position relative to size and metadata roll-overs leave read-back and counts "
               "unchanged, later valid writes are accepted, shape violations are always rejected; model checked "
               "and judged on projected real states of fb, npz and tfrec datasets.",
               "DESIGN.md 3.1, 5/C18"),
})

CHECKS.update({
    "C06": dict(
        engine="Dataset.tla, Dataset_Trace.tla, Dataset_Eval.tla", category="model_checking",
        text="Dataset.tla with every file-system effect (mkdir, create, partial write, full write, rename) as a "
             "separate step: C06_CrashSafe is an invariant of EVERY state (= crash point) for first and continued "
             "sessions, fillers and multi-writer calls, at-close and streaming shard formats, and C06_Reader for a "
             "reader interleaved with the writer's effects; the two necessary orderings are shown necessary by "
             "protocol deviations that TLC refutes. Real writer processes (fb, npz, tfrec; filler and real "
             "multi-process calls) are recorded with strace; every prefix of their effects plus torn variants of "
             "every write is materialised, projected and judged by TLC (C06 on the files, R06 on what the real "
             "reader returns from that directory), and each recorded effect sequence is validated against "
             "Dataset_Trace.tla so the exhaustive model result transfers to the code.",
        design_ref="DESIGN.md 3.1, 4.1, 5/C06",
        note="Trusted: strace's view of the system calls, the materialiser (validated against real SIGKILLs in the "
             "thorough tier), TLC. Crash = process death with the OS staying up (no power-loss reordering).",
        technique="TLA+ model checking at file-system-effect granularity + strace trace validation + TLC-judged "
                  "materialised crash states",
    ),
    "C09": dict(
        engine="Dataset.tla, Dataset_Trace.tla, Dataset_Eval.tla", category="model_checking",
        text="TLC explores every interleaving of K<=3 workers' file-system effects (distinct directories, parent "
             "merge only after all workers, exact metadata, passing check, per-writer order). Real "
             "write_multiprocessing(single_process=False) calls run under strace -f: per path the set of writing "
             "worker processes is a singleton, the parent writes only after the last worker, results come back "
             "in argument order, the final state is judged by TLC and equals the state produced by the same "
             "writers run one after another; recorded effect sequences are validated against Dataset_Trace.tla.",
        design_ref="DESIGN.md 3.1, 4.1, 5/C09",
        note="Relative speeds of real worker processes are sampled (uneven loads), not enumerated; enumeration of "
             "interleavings happens in the model only.",
        technique="TLA+ model checking of worker interleavings + strace -f trace validation of real multi-process runs",
    ),
})

CHECKS.update({
    "C05": dict(
        engine="Integrity.tla", category="fault_enumeration",
        text="Integrity.tla (Dataset.tla + one Tamper step: garbage, deletion, rollback to any older version, "
             "replacement by another file's content, on any file after any history) is model checked for "
             "PassWhenClean / DetectTamper / DetectInfoTamper, so the design of the check has no blind spot for "
             "reachable files; that the real check() is this algorithm is established by enumerating faults on real "
             "datasets (flat, continued, nested, multi-writer; 0..13 algorithms incl. repeated ones): every "
             "reachable file x {bit flips, truncations, extensions, deletion, swap with sibling, rollback to every "
             "recorded older version}, plus the description with and without expected checksums.",
        design_ref="DESIGN.md 3.5, 5/C05",
        note="Quick tier samples byte offsets (first, middle, last + 32 random per file); the thorough tier takes "
             "every offset of every file of 12 datasets. No digest collisions assumed.",
        technique="TLA+ model checking of the check algorithm under tampering + exhaustive fault enumeration on real datasets",
    ),
    "C12": dict(
        engine="Select.tla, Select_Eval.tla", category="model_checking",
        text="Select.tla transcribes the selection routine; TLC enumerates the complete cell space (every layout "
             "of <=4/5 shards over 3 metadata values x every predicate x k x limit) and checks its meta-properties "
             "(subsequence, cut before limit, limit keeps the earliest, empty => error). Every cell is executed on "
             "the real shard_paths_dataset and a covering sample through all five iteration interfaces on fb, npz "
             "and tfrec datasets with that layout; TLC (Select_Eval) judges observed selection = Select(cell).",
        design_ref="DESIGN.md 3.5, 5/C12",
        note="Exhaustive over the stated cell space for the common selection routine; per-interface forwarding of "
             "the options is sampled (>=150 cells per interface in quick).",
        technique="TLA+ enumeration of the decision table + TLC-judged replay of every cell on the real code (one handle and one predicate object reused across cells; library logging alternately at WARNING / DEBUG)",
    ),
})

CHECKS.update({
    "C16": dict(
        engine="HashStream.tla, HashStream_Eval.tla", category="model_checking",
        text="HashStream.tla models the streaming digest loop (file of L bytes, buffer capacity Cap, every pattern "
             "of short reads, a tuple of hash objects): PrefixFed and ResultExact are invariants; the variants "
             "'update(whole buffer)' and 'skip short reads' are refuted. Every TLC behaviour (all read patterns "
             "for L in 0..2Cap+1) is imposed on the real hash_checksums through a raw-file shim and the chunks "
             "each hash object receives are compared; real files around the multiples of the real 128 KiB buffer "
             "are hashed with recording hash objects and judged by TLC; every checksum recorded in real metadata "
             "(shards, lists, description; write_config / current_metadata_checksums) equals the digest computed "
             "by md5sum / sha*sum / openssl dgst -sha3-* / a pure-Python xxHash32/64, in configured order.",
        design_ref="DESIGN.md 3.5, 5/C16",
        note="Data-level component (which function a name denotes) is checked against external tools on sampled "
             "contents; xxhash's one-shot xxh128 is the trusted reference for xxh128.",
        technique="TLA+ model checking of the read loop + replay of every TLC read pattern + independent digests (single calls and six threads at once)",
    ),
    "C17": dict(
        engine="PathGuard.tla, PathGuard_Eval.tla", category="model_checking",
        text="PathGuard.tla enumerates every path string (<=4/5 components over {names, '.', '..', ''}, 0..3 leading "
             "slashes) and checks Guard(p) => Inside(root, Resolve(Join(root, p))). Each string is rendered and "
             "TLC (PathGuard_Eval) judges, against the real library: pathlib/os.path agreement of the model's path "
             "semantics, validator acceptance (FileInfo, ShardListInfo, ShardsList, filler sub-directory) = Guard, "
             "and accepted => inside. Accepted strings are planted in every path-valued metadata field of a real "
             "dataset (with decoys where they resolve to) which is opened, checked and iterated with all file "
             "opens recorded by an audit hook; the filler is run with each string as sub-directory.",
        design_ref="DESIGN.md 3.5, 5/C17",
        note="Symlinks, case-insensitive file systems and ~ expansion are outside the quantifier. Opens made by "
             "TensorFlow / Rust are judged through the paths Python hands to them.",
        technique="TLA+ exhaustive enumeration of path strings + TLC-judged replay on validators (also under python -O) and planted metadata",
    ),
})

CHECKS.update({
    "C20": dict(
        engine="Dataset.tla, Version.tla, Version_Eval.tla, Dataset_Eval.tla", category="model_checking",
        text="Dataset.tla's Relocate action (the directory moves; all metadata paths are root-relative, so every "
             "invariant - exact metadata, passing check, append-only continuation - is checked by TLC across "
             "moves and a fresh Open yields the handle the writer held) and Version.tla (Loads(v) <=> v <= running "
             "in MAJOR, MINOR, PATCH order; major-only and digit-string gates are refuted). TLC behaviours with "
             "Relocate steps are replayed with real moves/copies to nested, Unicode and blank-containing targets, "
             "reopened via absolute and cwd-relative paths, then checked, iterated and written further with the "
             "projected state compared with the specification's and judged by TLC; every version triple around "
             "the running version (incl. two-digit components) is patched into dataset_info.json and load/refuse "
             "judged by TLC, and datasets REALLY written by processes that call themselves an older / equal / newer "
             "version (sedpack.__version__ set before sedpack.io is imported) are judged by the same predicate; hypothesis-generated descriptions (Unicode text, nested JSON custom metadata at "
             "dataset / attribute / shard level, every format x compression, algorithm tuples) must be "
             "reconstructed exactly by a fresh open.",
        design_ref="DESIGN.md 5/C20",
        note="Description round-trip over arbitrary text is sampled (derandomized hypothesis), not enumerated.",
        technique="TLA+ model checking (Relocate, version gate) + replay of TLC behaviours with real moves + "
                  "TLC-judged version triples (hand-edited and really written by other versions) + property-based "
                  "description round-trips",
    ),
})

CHECKS.update({
    "C15": dict(
        engine="ParallelMap.tla, ParallelMap_Trace.tla", category="model_checking",
        text="ParallelMap.tla models the Rust parallel map at channel-operation granularity (spawn of min(T,N) "
             "workers, recv/send rotation, drop, join, panic): TLC checks Order, NoSilentTruncation, OneOutstanding, "
             "ReadAhead and DropTerminates for T in 1..4, N in 0..7, every drop position and every single panicking "
             "item; Order and ReadAhead are additionally proved for EVERY T, N, panicking set and drop position with "
             "the TLA+ proof system (spec/proofs/ParallelMap_OrderProofs.tla, 583 obligations, together with NoSilentTruncation: each worker's single "
             "outstanding item is the one its position in the rotation demands). /verif/rust_harness links /repo/rust and drives the real parallel_map with gate-controlled "
             "mapped functions: an edge cover of the T<=3, N<=4 state graphs (which worker finishes when, relative "
             "to next() and drop) is imposed, and every event log is validated against ParallelMap_Trace.tla. At the "
             "Python level the extension rebuilt from the working tree is compared with the pure-Python reader for "
             "1..6 shards x 1..8 threads x all supported compressions x shuffle, with early drops followed by a "
             "thread-count check and a fresh iteration, and - for four attribute layouts with one-, two-, four- and "
             "eight-byte items, booleans, scalars and rank 2/3 - on whole examples (dtype, shape, bytes).",
        design_ref="DESIGN.md 3.3, 4.4, 5/C15",
        note="Trusted: std::sync::mpsc, thread spawn/join, the gate mechanism of the harness. Task start-up is "
             "asynchronous (not gate-controlled); completion order, next() and drop are controlled.",
        technique="TLA+ model checking (+ TLAPS proof of Order / no silent truncation for all constants) + completion-order replay into the real Rust code (incl. plans with a pausing consumer) + trace validation",
    ),
})

_RD_NOTE = ("Trusted: TLC, the scripted-randomness / gate shims. Stage models are exhaustive for small sources and "
            "buffers; timings inside ThreadPoolExecutor, tf.data and asyncio are sampled; LazyPool and the Rust map "
            "are covered exhaustively for small constants by C13 / C15.")
CHECKS.update({
    "C02": dict(
        engine="ShuffleBuffer.tla, RoundRobin.tla, BatchMap.tla, LazyPool.tla, Reads_Eval.tla", category="model_checking",
        text="Each buffering stage is a step machine with nondeterministic index choices: BagPreserving / Complete are "
             "checked by TLC for all choices (sources 0..7, buffers 1..4, inner lengths 0..3), and the shuffle buffer's bag "
             "invariant is proved for every source length and buffer size with the TLA+ proof system "
             "(spec/proofs/ShuffleBuffer_BagProofs.tla, 369 obligations). An edge cover of every "
             "state graph is imposed on the real shuffle_buffer / round_robin (sync and async) through scripted "
             "randomness with pull counts and outputs compared after every yield; pull/yield logs of runs with the real "
             "generator are validated by ShuffleBuffer_Trace.tla. End to end, datasets built from multi-split, nested, "
             "continued and multi-writer histories are read with repeat=False through all five interfaces for shuffle "
             "in {0,1,2,>N} x file_parallelism in {1,2,>shards} (plus an injective process_record) and TLC judges "
             "yielded bag = committed bag.",
        design_ref="DESIGN.md 3.4, 4.5, 5/C02", note=_RD_NOTE,
        technique="TLA+ model checking of the pipeline stages (+ TLAPS proof of the shuffle buffer's bag invariant) + scripted-choice replay + trace validation + TLC-judged end-to-end reads (incl. overlapping and stalled passes)",
    ),
    "C03": dict(
        engine="Dataset.tla, BatchMap.tla, Reads_Eval.tla", category="model_checking",
        text="Write side: C03_WriteOrder of Dataset.tla (closing order, depth-first children, merge keeps update "
             "order, multi-writer in argument order) model checked and judged on projected states and real read-backs "
             "of replayed histories with splits interleaved inside sessions and shard-level metadata that goes away "
             "and comes back inside a session. Read side: BatchMap.tla OrderPreserving "
             "for every completion order; an edge cover of completion orders is imposed on the real unshuffled "
             "concurrent path through gates around process_and_list. End to end every interface with shuffle=0 "
             "yields, on repeated passes, on the writing handle and after reopening, for file_parallelism in "
             "{1,2,>shards}, the same sequence containing every session's examples in write order (TLC-judged).",
        design_ref="DESIGN.md 5/C03", note=_RD_NOTE,
        technique="TLA+ model checking (write order, ordered map) + completion-order replay + TLC-judged end-to-end sequences",
    ),
    "C19": dict(
        engine="EpochLoop.tla, ShuffleBuffer.tla, Reads_Eval.tla", category="model_checking",
        text="EpochLoop.tla (itertools.cycle / the per-epoch loop of the Rust generator: NeverEnds, Periodic, "
             "EpochsArePermutations, OneLiveIterator) and ShuffleBuffer.tla over a cyclic source (only source "
             "elements, never stalls) are model checked; stream prefixes of three epochs are taken from every "
             "interface with repeat=True for shuffle in {0,1,n,>n} x file_parallelism in {1,2,>shards} on real "
             "multi-split datasets and judged by TLC: membership in the split, periodic repetition when unshuffled, "
             "permutation per epoch for the Rust interface, prefix delivered under a watchdog.",
        design_ref="DESIGN.md 5/C19", note=_RD_NOTE,
        technique="TLA+ model checking of the repetition machinery + TLC-judged stream prefixes of every interface",
    ),
})

CHECKS.update({
    "C07": dict(
        engine="LazyPool.tla, ParallelMap.tla, BatchMap.tla", category="fault_enumeration",
        text="The failure paths of the three parallel pipelines are model checked (LazyPool: a failing input at "
             "every position never yields a normal end and always surfaces, no deadlock; ParallelMap: a panicking "
             "item never leads to a normal end; BatchMap: the ordered map re-raises) and exercised on the real "
             "code (failing schedules on the real LazyPool with structural deadlock detection, panicking plans on "
             "the real Rust parallel_map). End to end, real fb / npz / tfrec datasets with one shard deleted, "
             "emptied or overwritten with garbage (first, middle, last; thorough: truncated, single-shard, more "
             "compressions, repeat) are read through every interface, shuffle on/off, file_parallelism 1/2, each "
             "pass under a watchdog: an exception must reach the consumer - never a hang, never a normal end "
             "without the shard's examples. 'Rejected by the decoder' is decided by the third-party decoder.",
        design_ref="DESIGN.md 5/C07",
        note="Thread timings inside ThreadPoolExecutor, tf.data and asyncio are sampled; bounded time = 60 s "
             "watchdog (normal passes take milliseconds); LazyPool hangs are also proven structurally.",
        technique="TLA+ model checking of the failure paths + fault enumeration on real damaged datasets under a watchdog",
    ),
    "C14": dict(
        engine="ShuffleBuffer.tla, RoundRobin.tla, BatchMap.tla, LazyPool.tla, ParallelMap.tla", category="model_checking",
        text="The read-ahead of every buffering stage is a state invariant that does not mention the source length "
             "(shuffle buffer B+1, round robin B open iterators, lazy pool prefill+1, batch map P shards, Rust map T "
             "tasks), checked by TLC for sources of several lengths and for the cyclic source (Productive: a finite "
             "take never blocks); inductive-invariant proofs of the five bounds for EVERY source length, buffer size, "
             "thread count, failure set and drop position are checked by the TLA+ proof system (spec/proofs, 725 "
             "obligations). On the real code the same quantities are measured for sources of N, 2N, 4N "
             "elements (identical maxima, within the model's bound), a finite take from an endless LazyPool source "
             "returns, and end to end the shard files opened while taking k examples (inotify: Python, TensorFlow "
             "and Rust threads alike) from finite and repeating datasets of 20/40/80 shards stay below a bound "
             "computed from shuffle and file_parallelism alone, for all five interfaces and three formats.",
        design_ref="DESIGN.md 5/C14",
        note="Exact constants are reported, not demanded; the alarm bound is deliberately loose "
             "(4*(shuffle+file_parallelism)+8 shards). Threaded paths are maxima over repeated runs.",
        technique="TLA+ read-ahead invariants (TLC for small constants, TLAPS proofs for all constants) + pull/yield measurements on the real generators + inotify-observed file opens (fast and pausing consumers; during and after the take)",
    ),
})

CHECKS["C18"]["text"] += (" A declaration sweep (every dtype x format, supported or not, with well-typed, fractional, "
                          "textual, wider-dtype, missing-attribute and extra-attribute values, the odd write being the "
                          "second or the first write of a shard) checks that an accepted write keeps the dataset "
                          "readable and a rejected one leaves no trace; the remaining format/dtype-table defects are listed as known findings. "
                          "A shape sweep (declared x presented shapes of other rank, other size, and same rank and size "
                          "with other dimensions; first / middle / last attribute; three formats) checks that every shape "
                          "violation is rejected and the good writes read back with their values.")
CHECKS.update({
    "C01": dict(
        engine="CodecCells.tla, CodecCells_Eval.tla", category="exploration",
        text="Weakest claim of the suite. CodecCells.tla is a structural model of the codec pipelines over opaque "
             "element tokens (logical element order, byte order inside elements, typing rule per format) for every "
             "shape of rank 0..4 x memory order x byte order x dtype relation; three mutated pipelines (dump in memory "
             "order, missing byteswap, Fortran reshape) are refuted by TLC. The model is used as the cell generator: "
             "every (format, compression, dtype, presentation, reader) cell is executed through the real "
             "write_example and every reader with a value battery (extremes, +-0, +-inf, quiet and signalling NaN "
             "payloads, subnormals, seeded random bit patterns; empty / NUL-containing / non-ASCII byte and text "
             "strings) and TLC applies the typing rule to each observation. Values are sampled, not decided.",
        design_ref="DESIGN.md 5/C01, 8",
        note="Encode/decode fidelity over the value space cannot be enumerated or proved by a TLA+ model; numpy, "
             "TensorFlow and the compression libraries are trusted. Five value-level deviations are known findings.",
        technique="TLA+ structural model as exhaustive cell generator and typing oracle + sampled value batteries on the real codecs",
    ),
})

NOT_YET = {}

ALL = [f"C{i:02d}" for i in range(1, 21)]


PROOFS = [("ShuffleBuffer_Proofs.tla", ["C14"]), ("ShuffleBuffer_BagProofs.tla", ["C02"]),
          ("RoundRobin_Proofs.tla", ["C14"]), ("BatchMap_Proofs.tla", ["C14"]),
          ("ParallelMap_Proofs.tla", ["C14", "C15"]), ("ParallelMap_OrderProofs.tla", ["C15"]),
          ("LazyPool_Proofs.tla", ["C13", "C14"]), ("LazyPool_OnceProofs.tla", ["C13"])]


def main():
    checks = []
    for pid in ALL:
        if pid not in CHECKS:
            continue
        c = CHECKS[pid]
        checks.append({
            "property_id": pid,
            "quick_cmd": f"./check {pid} --tier quick",
            "thorough_cmd": f"./check {pid} --tier thorough",
            "evidence_file": f"evidence/{pid}.json",
            "replay_cmd_template": f"./check {pid} --replay {{path}}",
            "engine": c["engine"],
            "level_claimed": {"category": c["category"], "text": c["text"], "design_ref": c["design_ref"]},
            "level_note": c["note"],
            "technique": c["technique"],
        })
    na = [{"property_id": p, "reason": NOT_YET.get(p, "check not built yet in this revision of /verif (work in progress; "
           "planned technique in DESIGN.md section 5)")} for p in ALL if p not in CHECKS]
    engines = {}
    for pid, c in CHECKS.items():
        for e in c["engine"].split(", "):
            engines.setdefault(e, []).append(pid)
    m = {
        "version": 1,
        "setup_cmd": "./setup.sh",
        "hooks": {
            "guard": "SEDPACK_VERIF",
            "enable": "no hooks are compiled into /repo: all observation is external (strace, module-namespace "
                      "shims installed by the harness, a separate Rust harness crate); SEDPACK_VERIF is reserved",
            "baseline_off_cmd": "cd /repo && /venv/bin/python -m pytest -ra -q -p no:cacheprovider --timeout=900 "
                                "--continue-on-collection-errors",
            "source_commits": [],
            "add_only": True,
        },
        "engines": [{"name": e, "path": f"spec/{e}", "serves_properties": sorted(ps),
                     "kind_free_text": "TLA+ specification checked with TLC and bound to the implementation by "
                                       "replay / trace validation"} for e, ps in sorted(engines.items())] +
                   [{"name": e, "path": f"spec/proofs/{e}", "serves_properties": ps,
                     "kind_free_text": "TLAPS proof module (inductive invariant for all values of the constants) "
                                       "extending the specification of the same name; re-checked by tlapm on "
                                       "every run of the checks it serves"} for e, ps in PROOFS],
        "checks": checks,
        "not_applicable": na,
        "notes": "All checks are driven by ./check <ID>; specifications live in spec/, binding harnesses in harness/. "
                 "Known findings: known_findings.json. Design: DESIGN.md.",
    }
    (VERIF / "MANIFEST.json").write_text(json.dumps(m, indent=1) + "\n")


if __name__ == "__main__":
    main()
