------------------------------- MODULE RoundRobin -------------------------------
(* itertools.round_robin (itertools.py:138-178, async twin :181-223): a buffer of up to B open inner        *)
(* iterators fed from an outer iterator of iterables; a random slot is advanced; an exhausted slot is       *)
(* refilled from the outer iterator, or, when that is exhausted, overwritten by the last slot.              *)
(* Inner iterable k has Lens[k] items; item j of iterable k is the number 10 * k + j.                       *)
EXTENDS Naturals, Sequences, FiniteSets

CONSTANTS Lens, B

VARIABLES opened, buf, out, pc
vars == <<opened, buf, out, pc>>
K == Len(Lens)

Init == opened = 0 /\ buf = <<>> /\ out = <<>> /\ pc = "fill"
\* :159-160  for _, i in zip(range(buffer_size), iterables): buffer.append(iter(i))
FillOpen == /\ pc = "fill" /\ Len(buf) < B /\ opened < K
            /\ opened' = opened + 1 /\ buf' = Append(buf, [k |-> opened + 1, pos |-> 0])
            /\ UNCHANGED <<out, pc>>
FillEnd == /\ pc = "fill" /\ (Len(buf) = B \/ opened = K)
           /\ pc' = "loop" /\ UNCHANGED <<opened, buf, out>>
\* :165-178
Pick(p) ==
    /\ pc = "loop" /\ p \in 1..Len(buf)
    /\ LET c == buf[p] IN
       IF c.pos < Lens[c.k]
       THEN /\ out' = Append(out, 10 * c.k + c.pos + 1)                      \* yield next(buffer[pos])
            /\ buf' = [buf EXCEPT ![p].pos = @ + 1] /\ UNCHANGED opened
       ELSE IF opened < K
            THEN /\ buf' = [buf EXCEPT ![p] = [k |-> opened + 1, pos |-> 0]]  \* refill the slot
                 /\ opened' = opened + 1 /\ UNCHANGED out
            ELSE /\ buf' = [j \in 1..Len(buf) - 1 |-> IF j = p THEN buf[Len(buf)] ELSE buf[j]]
                 /\ UNCHANGED <<opened, out>>                                 \* buffer[pos] = buffer[-1]; del buffer[-1]
    /\ UNCHANGED pc
Done == pc = "loop" /\ buf = <<>> /\ pc' = "done" /\ UNCHANGED <<opened, buf, out>>
Finished == pc = "done" /\ UNCHANGED vars
Next == FillOpen \/ FillEnd \/ (\E p \in 1..B : Pick(p)) \/ Done \/ Finished
Spec == Init /\ [][Next]_vars

AllItems == UNION {{10 * k + j : j \in 1..Lens[k]} : k \in 1..K}
SeqSet(s) == {s[i] : i \in 1..Len(s)}
NoDup(s) == \A i, j \in 1..Len(s) : i # j => s[i] # s[j]
\* every item of every inner iterable exactly once  (C02)
BagPreserving == NoDup(out) /\ SeqSet(out) \subseteq AllItems /\ (pc = "done" => SeqSet(out) = AllItems)
\* items of one inner iterable keep their order
InnerOrder == \A i, j \in 1..Len(out) : (i < j /\ out[i] \div 10 = out[j] \div 10) => out[i] < out[j]
\* at most B inner iterators are open at any time, whatever the number of iterables  (C14)
OpenBounded == Len(buf) <= B
NoSlotLost == \A k \in 1..opened : (\E p \in 1..Len(buf) : buf[p].k = k) \/
                                   Cardinality({i \in 1..Len(out) : out[i] \div 10 = k}) = Lens[k]
===============================================================================
