"""C01 - round-trip fidelity (claimed at exploration level).

CodecCells.tla is a structural model of the codec pipelines over opaque element tokens: for every shape (rank 0..4)
and presentation (C / Fortran / strided memory, native / little / big endian, same or safely-castable narrower
dtype) it follows the writers' normalisation steps and the readers' inverse and checks that the logical element
order and the byte order inside elements are preserved, and it fixes the typing rule per format; three mutated
pipelines (dump in memory order, no byteswap, Fortran reshape) are refuted. The model is the cell generator:
every cell (format x compression x dtype x shape x presentation x reader) is executed through the real
write_example and every reader supporting the format, with values covering the dtype's range (min / max, +-0,
+-inf, NaN payloads, subnormals, random bit patterns, empty / NUL-containing byte strings); TLC (CodecCells_Eval)
applies the typing rule to each observation. Values are sampled, not decided - hence exploration."""
from __future__ import annotations

import json
import shutil
import tempfile
import traceback
from pathlib import Path

import numpy as np

from .. import dshist as H, tlc
from ..core import Ctx, MachineryError

LEVEL = "exploration"
SHAPES = [(), (3,), (2, 3), (2, 1, 3), (1, 2, 3, 2)]
NUM_DTYPES = {
    "fb": ["int8", "uint8", "int16", "uint16", "int32", "uint32", "int64", "uint64", "float16", "float32", "float64"],
    "npz": ["int8", "uint8", "int16", "int32", "int64", "uint64", "float16", "float32", "float64"],
    "tfrec": ["int8", "uint8", "int32", "int64", "float16", "float32"],
}
NARROWER = {"int16": "int8", "int32": "int16", "int64": "int32", "uint16": "uint8", "uint32": "uint16",
            "uint64": "uint32", "float32": "float16", "float64": "float32"}
PRESENTATIONS = ["C", "F", "strided", "big", "little", "narrow", "npscalar", "pylist", "reused", "aliased"]


def battery(dtype: str, n: int, rng: np.random.Generator) -> np.ndarray:
    """n values of dtype: extremes, special values, then random bit patterns; as distinct as the dtype allows."""
    dt = np.dtype(dtype)
    if dt.kind in "iu":
        info = np.iinfo(dt)
        base = [info.min, info.max, 0, 1, info.max - 1, info.min + 1] + ([-1] if dt.kind == "i" else [2])
        vals = np.array(base, dtype=dt)
    else:
        info = np.finfo(dt)
        u = {2: np.uint16, 4: np.uint32, 8: np.uint64}[dt.itemsize]
        nan_payload = np.array([np.array(np.nan, dt).view(u) | u(0x15)], dtype=u).view(dt)
        snan = np.array([(np.array(np.inf, dt).view(u)) | u(1)], dtype=u).view(dt)
        vals = np.concatenate([np.array([0.0, -0.0, np.inf, -np.inf, info.max, info.min, info.tiny,
                                         info.smallest_subnormal, -info.smallest_subnormal, np.nan], dtype=dt),
                               nan_payload, snan])
    rnd_bytes = rng.integers(0, 256, size=n * dt.itemsize, dtype=np.uint8).tobytes()
    rnd = np.frombuffer(rnd_bytes, dtype=dt)
    out = np.concatenate([vals, rnd])[:n] if n <= len(vals) else np.concatenate([vals, rnd])[:n]
    if len(out) < n:
        out = np.resize(out, n)
    return out.astype(dt)


def present(values: np.ndarray, shape, how: str, declared: str):
    """values: 1-D array (logical C order) of the dtype to present. Returns the object handed to write_example."""
    a = values.reshape(shape)
    if how == "C":
        return np.ascontiguousarray(a)
    if how == "F":
        return np.asfortranarray(a)
    if how == "strided":
        big = np.zeros(tuple(shape[:-1]) + (2 * shape[-1],), dtype=a.dtype) if shape else np.zeros((2,), a.dtype)
        if shape:
            big[..., ::2] = a
            return big[..., ::2]
        big[0] = a
        return big[0:1].reshape(())
    if how == "big":
        return a.astype(a.dtype.newbyteorder(">"))
    if how == "little":
        return a.astype(a.dtype.newbyteorder("<"))
    if how in ("narrow", "aliased"):
        return np.ascontiguousarray(a)
    if how == "npscalar":
        return a.dtype.type(a.reshape(-1)[0])
    if how == "pylist":
        return a.tolist()
    raise ValueError(how)


def bits(a: np.ndarray) -> bytes:
    a = np.ascontiguousarray(a)
    return a.astype(a.dtype.newbyteorder("=")).tobytes()


def run_cells(task: dict) -> dict:
    out = {"error": None, "obs": [], "notes": []}
    tmp = Path(tempfile.mkdtemp(prefix="verif_c01_"))
    try:
        from .. import rustext
        if rustext.SO.exists():
            rustext.preload()
        from sedpack.io import Dataset, Metadata
        from sedpack.io.metadata import Attribute, DatasetStructure
        from .. import readers
        fmt, comp, dtype = task["fmt"], task["compression"], task["dtype"]
        rng = np.random.default_rng(task["seed"])
        if dtype in ("bytes", "str"):
            attrs = [Attribute(name="a0", dtype=dtype, shape=())]
            shapes = [()]
        else:
            k0 = task["shape_offset"]
            shapes = [SHAPES[(k0 + i) % len(SHAPES)] for i in range(task["nattrs"])]
            attrs = [Attribute(name=f"a{i}", dtype=dtype, shape=s) for i, s in enumerate(shapes)]
        # one presentation per shard (examples_per_shard = variants): mixing presentations inside one npz shard is a
        # cell of its own ("mixed")
        structure = DatasetStructure(saved_data_description=attrs, compression=comp,
                                     examples_per_shard=task["variants"] if dtype not in ("bytes", "str") else 4,
                                     shard_file_type=fmt, hash_checksum_algorithms=())
        ds = Dataset.create(tmp / "d", Metadata(description="c01"), structure)
        written = []  # (presentation, rel, [expected arrays per attribute] or raw)
        rejected = []
        with ds.filler() as f:
            if dtype in ("bytes", "str"):
                raws = [b"", b"a", b"\x00", b"ab\x00", b"\x00\x00ab\x00\x00", bytes(range(256)),
                        bytes(rng.integers(0, 256, 300, dtype=np.uint8))]
                if dtype == "str":
                    raws = ["", "a", "é中\U0001f600", "nul\x00inside", "tail\x00", "x" * 300]
                for r in raws:
                    try:
                        f.write_example(values={"a0": r}, split="train")
                        written.append(("raw", "same", [r]))
                    except Exception as exc:  # pylint: disable=broad-except
                        rejected.append(("raw", type(exc).__name__))
            else:
                for how in task["presentations"]:
                    rel = "narrow" if how == "narrow" else "same"
                    src_dtype = NARROWER.get(dtype) if how == "narrow" else dtype
                    if src_dtype is None:
                        continue
                    if how == "aliased" and not (np.dtype(dtype).kind in "iu" and np.dtype(dtype).itemsize > 1):
                        continue    # (integers only: byte-swapped floats are mostly NaN patterns)
                    reuse = {}
                    alias_prev = {}
                    for variant in range(task["variants"]):
                        vals, exp = {}, []
                        ok = True
                        for i, s in enumerate(shapes):
                            n = int(np.prod(s)) if s else 1
                            if how == "npscalar" and s != ():
                                how_i = "C"
                            else:
                                how_i = how
                            v = battery(src_dtype, n + variant * 3, rng)[variant * 3:][:n]
                            if len(v) < n:
                                v = np.resize(v, n)
                            if how == "aliased":
                                # consecutive examples of one shard whose MEMORY is byte for byte the same but whose
                                # values differ: the second is the first one's buffer declared in the other byte order
                                if variant % 2 == 1 and i in alias_prev:
                                    v = alias_prev[i].view(alias_prev[i].dtype.newbyteorder())
                                else:
                                    v = np.ascontiguousarray(v)
                                    alias_prev[i] = v
                            if how == "pylist" and v.dtype.kind == "f":
                                # a Python list goes through Python floats (double): NaN payloads combined with a
                                # widening cast are outside the statement
                                v = np.where(np.isnan(v), v.dtype.type(1.5), v)
                            if how == "reused":
                                # the caller keeps ONE array per attribute and overwrites it in place between writes
                                if i not in reuse:
                                    reuse[i] = np.zeros(s, dtype=dtype)
                                reuse[i][...] = v.reshape(s)
                                vals[f"a{i}"] = reuse[i]
                            else:
                                vals[f"a{i}"] = present(v, s, how_i, dtype)
                            # the value that is written is the value as presented (a Python list has already gone
                            # through Python floats / numpy's dtype inference before sedpack sees it)
                            with np.errstate(all="ignore"):
                                exp.append(np.array(vals[f"a{i}"], copy=True).reshape(s).astype(dtype))
                        try:
                            f.write_example(values=vals, split="train")
                            written.append((how, rel, exp))
                        except Exception as exc:  # pylint: disable=broad-except
                            rejected.append((how, type(exc).__name__))
        for how, exc in rejected:
            out["obs"].append({"fmt": fmt, "rel": "narrow" if how == "narrow" else "same", "accepted": False,
                               "read": False, "equal": False, "shape_ok": False, "rtype": "none", "dtype": dtype,
                               "presentation": how, "reader": "-", "compression": comp, "detail": exc})
        if not written:
            return out
        ds = Dataset(tmp / "d")
        for iface in task["readers"]:
            if not readers.supports(iface, fmt, comp):
                continue
            try:
                got = list(readers.iterate(ds, iface, "train", repeat=False, shuffle=0, file_parallelism=2))
                err = None
            except BaseException as exc:  # pylint: disable=broad-except
                got, err = [], f"{type(exc).__name__}: {str(exc)[:160]}"
            for k, (how, rel, exp) in enumerate(written):
                o = {"fmt": fmt, "rel": rel, "accepted": True, "read": err is None and k < len(got), "equal": False,
                     "shape_ok": False, "rtype": "other", "dtype": dtype, "presentation": how, "reader": iface,
                     "compression": comp, "detail": err or ""}
                if o["read"]:
                    ex = got[k]
                    eq, shp, rts = True, True, set()
                    for i, e in enumerate(exp):
                        g = ex[f"a{i}"]
                        if hasattr(g, "numpy"):
                            g = g.numpy()
                        if dtype in ("bytes", "str"):
                            want = e.encode("utf-8") if isinstance(e, str) else e
                            gb = g
                            if isinstance(g, np.ndarray):
                                gb = g.item() if g.shape == () else g.tobytes()
                            if isinstance(gb, str):
                                rts.add("declared" if dtype == "str" else "other")
                                gb = gb.encode("utf-8")
                            else:
                                rts.add("widened" if dtype == "str" else "declared")
                            if gb != want:
                                eq = False
                                o["detail"] = f"wrote {want[:20]!r} ({len(want)} bytes) read {bytes(gb)[:20]!r} ({len(gb)} bytes)"
                            continue
                        g = np.asarray(g)
                        if g.shape != e.shape:
                            shp = False
                            o["detail"] = f"shape {g.shape} != {e.shape}"
                            continue
                        gd = g.dtype.newbyteorder("=")
                        if fmt == "npz" and gd != np.dtype(dtype):
                            rts.add("as_presented")          # npz returns the dtype as stored
                            with np.errstate(all="ignore"):
                                same = bits(g.astype(dtype)) == bits(e) and (
                                    g.dtype.kind not in "iuf" or np.array_equal(g.astype(dtype).astype(g.dtype), g,
                                                                                equal_nan=True))
                        elif gd == np.dtype(dtype):
                            rts.add("declared")
                            same = bits(g) == bits(e)
                        elif rel == "narrow" and gd == np.dtype(NARROWER[dtype]):
                            rts.add("as_presented")
                            same = bits(g.astype(dtype)) == bits(e)
                        elif gd == np.dtype("int64") and np.dtype(dtype).kind in "iu":
                            rts.add("widened")
                            same = bits(g) == bits(e.astype("int64"))
                        else:
                            rts.add("other")
                            same = False
                            o["detail"] = f"returned dtype {g.dtype} for declared {dtype}"
                        if not same and rel == "narrow" and np.dtype(dtype).kind == "f" and g.shape == e.shape:
                            # a NaN presented in a NARROWER dtype has to be widened on the way in; which payload the
                            # wider NaN gets is left open by IEEE 754 (numpy keeps it, the protobuf / TensorFlow
                            # conversions canonicalise it), so for this presentation a NaN only has to come back as
                            # a NaN - every other value bit for bit
                            with np.errstate(all="ignore"):
                                gw_ = np.ascontiguousarray(g).astype(dtype).reshape(-1)
                                ew_ = np.ascontiguousarray(e).astype(dtype).reshape(-1)
                            nan_g, nan_e = np.isnan(gw_), np.isnan(ew_)
                            if bool(np.array_equal(nan_g, nan_e)) and bits(gw_[~nan_e]) == bits(ew_[~nan_e]):
                                same = True
                        if not same and g.shape == e.shape and np.dtype(dtype).kind == "f" and gd == np.dtype(dtype):
                            # classify: only signalling NaNs came back quiet (payload otherwise identical)?
                            u = {2: np.uint16, 4: np.uint32, 8: np.uint64}[np.dtype(dtype).itemsize]
                            gw = np.ascontiguousarray(g).astype(gd).view(u).reshape(-1)
                            ew = np.ascontiguousarray(e).view(u).reshape(-1)
                            mant = {2: 10, 4: 23, 8: 52}[np.dtype(dtype).itemsize]
                            quiet = u(1) << u(mant - 1)
                            diff = gw != ew
                            expo = (ew >> u(mant)) & u((1 << (np.dtype(dtype).itemsize * 8 - 1 - mant)) - 1)
                            is_snan = (expo == u((1 << (np.dtype(dtype).itemsize * 8 - 1 - mant)) - 1)) & \
                                      ((ew & (quiet - u(1))) != 0) & ((ew & quiet) == 0)
                            if diff.any() and bool(np.all(is_snan[diff])) and bool(np.all(gw[diff] == (ew[diff] | quiet))):
                                o["kind"] = "snan-quieted"
                                o["detail"] = f"{int(diff.sum())} signalling NaN(s) came back as quiet NaN(s), e.g. " \
                                              f"{hex(int(ew[diff][0]))} -> {hex(int(gw[diff][0]))}"
                        if not same and g.shape == e.shape and np.dtype(dtype).kind == "f" and "kind" not in o:
                            # classify: only subnormal values (of the declared or of the stored, narrower/wider dtype)
                            # came back as zero of the same sign, everything else identical?
                            with np.errstate(all="ignore"):
                                gv = np.ascontiguousarray(g).astype("float64").reshape(-1)
                                ev = np.ascontiguousarray(e).astype("float64").reshape(-1)
                            thr = float(np.finfo(np.dtype(dtype)).tiny)
                            for other in ("float32", "float16"):
                                if np.dtype(other).itemsize < np.dtype(dtype).itemsize or other == dtype:
                                    thr = max(thr, float(np.finfo(other).tiny)) if rel == "narrow" or other == dtype \
                                        else thr
                            if how == "pylist":
                                thr = max(thr, float(np.finfo("float32").tiny)) if dtype == "float32" else thr
                            with np.errstate(all="ignore"):
                                d_ = ~((gv == ev) | (np.isnan(gv) & np.isnan(ev)))
                                d_ |= (np.signbit(gv) != np.signbit(ev)) & ~np.isnan(ev)
                                flushed = (np.abs(ev) > 0) & (np.abs(ev) < thr) & (gv == 0) & \
                                          (np.signbit(gv) == np.signbit(ev))
                            if d_.any() and bool(np.all(flushed[d_])):
                                o["kind"] = "subnormal-flushed"
                                o["detail"] = f"{int(d_.sum())} subnormal value(s) came back as zero, e.g. " \
                                              f"{ev[d_][0]!r} -> {gv[d_][0]!r}"
                        if not same:
                            eq = False
                            if not o["detail"]:
                                bad = np.flatnonzero(np.ascontiguousarray(g).reshape(-1).astype(e.dtype).view(np.uint8)
                                                     .reshape(-1) != np.ascontiguousarray(e).reshape(-1).view(np.uint8)
                                                     .reshape(-1)) if g.size == e.size else []
                                o["detail"] = f"attribute a{i} shape {e.shape}: {len(bad)} differing bytes"
                    o["equal"], o["shape_ok"] = eq, shp
                    o["rtype"] = rts.pop() if len(rts) == 1 else ("other" if rts else "declared")
                out["obs"].append(o)
    except Exception:  # pylint: disable=broad-except
        out["error"] = traceback.format_exc()
    finally:
        shutil.rmtree(tmp, ignore_errors=True)
    return out


def run(ctx: Ctx) -> None:
    q = ctx.quick
    ctx.assumptions += ["fidelity over the value space is sampled (fixed battery + seeded random bit patterns), not "
                        "decided; the structural model covers element order, byte order and typing only",
                        "numpy, TensorFlow and the compression libraries are trusted",
                        "a presentation that the writer rejects (e.g. a Python list whose default dtype does not cast "
                        "safely) writes nothing and is outside the statement"]
    d = ctx.tmp / "mc"
    dims = frozenset(SHAPES)
    mod, cfg = tlc.make_model(d / "good", "CodecCells", {"Dims": dims, "Variant": "good"}, spec="Spec",
                              invariants=["ElementOrderPreserved", "ByteOrderPreserved", "TypingRule"])
    res = tlc.run(mod, cfg, workers=4, workdir=d / "good", coverage=False)
    if not res.ok:
        raise MachineryError(f"CodecCells.tla violates {res.violated}")
    ctx.cov["model_cells"] = res.distinct
    sanity = []
    for v in ("dump_memory_order", "no_byteswap", "reshape_fortran"):
        mod, cfg = tlc.make_model(d / v, "CodecCells", {"Dims": dims, "Variant": v}, spec="Spec",
                                  invariants=["ElementOrderPreserved", "ByteOrderPreserved"])
        r = tlc.run(mod, cfg, workers=2, workdir=d / v, coverage=False)
        if r.ok:
            raise MachineryError(f"model sanity: pipeline variant {v} not refuted")
        sanity.append(f"{v}: {r.violated}")
    ctx.cov["model_sanity"] = sanity
    ctx.log(f"TLC: {res.distinct} structural cells (format x shape x memory order x byte order x dtype relation), "
            f"order / byte-order / typing invariants hold; 3 mutated pipelines refuted")

    from .. import dsreal, rustext
    rustext.build()
    tasks = []
    readers_all = ["numpy", "concurrent", "async", "rust", "tfdata"]
    si = 0
    for fmt, comps in dsreal.FORMAT_COMPRESSIONS.items():
        use = comps[:2] if q else comps
        for ci, comp in enumerate(use):
            dts = NUM_DTYPES[fmt] if (ci == 0 or not q) else NUM_DTYPES[fmt][:3]
            for dt in dts + (["bytes", "str"] if fmt == "tfrec" else (["bytes"] if fmt == "npz" else [])):
                si += 1
                tasks.append({"fmt": fmt, "compression": comp, "dtype": dt, "shape_offset": si % len(SHAPES),
                              "nattrs": 1 + si % 4, "presentations": PRESENTATIONS, "variants": 3 if q else 6,
                              "readers": readers_all, "seed": ctx.seed * 1000 + si})
    if q:
        # the value windows of the quick tier are narrower than the thorough tier's; the two cells in which only the
        # wider windows exhibit a recorded finding (F4, F11) are run with the wide windows in the quick tier as well, so
        # that every listed finding is reproduced - and re-examined - by every run
        for fmt_, dt_, pres_ in (("npz", "uint64", "pylist"), ("npz", "float64", "narrow")):
            ref = next((t for t in tasks if t["fmt"] == fmt_ and t["dtype"] == dt_ and t["compression"] == ""), None)
            if ref is not None:
                tasks.append(dict(ref, presentations=[pres_], variants=6, shape_offset=1, nattrs=4))
    try:
        outs = H.run_histories(tasks, fn=run_cells)
    finally:
        H.shutdown_pool()
    obs, owner = [], []
    for t, o in zip(tasks, outs):
        if o["error"]:
            raise MachineryError(o["error"])
        obs += o["obs"]
    of = ctx.tmp / "obs.json"
    keep = ("fmt", "rel", "accepted", "read", "equal", "shape_ok", "rtype")
    of.write_text(json.dumps([{k: o[k] for k in keep} for o in obs]))
    mod, cfg = tlc.make_model(ctx.tmp / "ev", "CodecCells_Eval", {"Dims": frozenset({()}), "Variant": "good"},
                              spec="ESpec", invariants=["Judge"])
    r = tlc.run(mod, cfg, workers=1, workdir=ctx.tmp / "ev", coverage=False, cont=True, env={"OBS_FILE": str(of)},
                timeout=3000)
    if r.distinct != len(obs):
        raise MachineryError(f"CodecCells_Eval judged {r.distinct} of {len(obs)}\n{r.out[-2000:]}")
    cells = set()
    n_rej = 0
    for o in obs:
        if o["accepted"]:
            cells.add((o["fmt"], o["compression"], o["dtype"], o["presentation"], o["reader"]))
        else:
            n_rej += 1
    for p in r.prints:
        if isinstance(p, tuple) and p and p[0] == "CELL-FAILS":
            o = obs[p[1] - 1]
            what = "unreadable" if not o["read"] else ("wrong-type" if o["equal"] and o["shape_ok"] else "wrong-value")
            what = o.get("kind", what)
            if o["dtype"] == "bytes" and "bytes) read" in o["detail"] and what == "wrong-value":
                w0 = o["detail"]
                what = "trailing-nul-stripped" if w0.count("\\x00") else what
            ctx.violation(f"C01|fmt={o['fmt']}|dtype={o['dtype']}|presentation={o['presentation']}|reader={o['reader']}|kind={what}",
                          f"{o['fmt']}/{o['compression']} dtype {o['dtype']} presented as {o['presentation']} read "
                          f"through {o['reader']}: {what} ({o['detail']})", {"cell": o})
    ctx.cov["evaluations"] = len(obs)
    ctx.cov["distinct_nontrivial"] = len(cells)
    ctx.cov["rule"] = ("one evaluation = one written example (1..4 attributes of rank 0..4, battery + random bit "
                       "patterns) read back through one interface and judged by TLC against the typing rule; distinct "
                       "non-trivial = distinct accepted (format, compression, dtype, presentation, reader) cells")
    ctx.cov["rejected_at_write_time"] = n_rej
    if obs:
        ctx.sample({k: v for k, v in obs[len(obs) // 2].items()})
        ctx.sample({k: v for k, v in obs[-1].items()})
    ctx.log(f"{len(obs)} cell executions ({len(cells)} distinct accepted cells, {n_rej} presentations rejected at write "
            f"time) judged by TLC")


def replay(ctx: Ctx, body: dict) -> None:
    c = body["witness"]["cell"]
    t = {"fmt": c["fmt"], "compression": c["compression"], "dtype": c["dtype"], "shape_offset": 0, "nattrs": 4,
         "presentations": [c["presentation"]] if c["presentation"] != "raw" else PRESENTATIONS, "variants": 3,
         "readers": [c["reader"]], "seed": ctx.seed}
    o = run_cells(t)
    if o["error"]:
        raise MachineryError(o["error"])
    ctx.cov.update({"evaluations": max(1, len(o["obs"])), "distinct_nontrivial": 2, "rule": "replay of one cell"})
    for ob in o["obs"]:
        if ob["accepted"] and not (ob["read"] and ob["equal"] and ob["shape_ok"]):
            ctx.violation(f"C01|fmt={ob['fmt']}|dtype={ob['dtype']}|presentation={ob['presentation']}|reader={ob['reader']}|kind=replay",
                          f"{ob}", {"cell": ob})
