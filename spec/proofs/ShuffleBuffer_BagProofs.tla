------------------------ MODULE ShuffleBuffer_BagProofs ------------------------
(* TLAPS proof that itertools.shuffle_buffer over a finite source yields every element exactly once (C02):    *)
(* BagPreserving holds for EVERY source length N and buffer size B >= 1.  The inductive invariant says that    *)
(* buffer, output and the element in hand partition 1..pulled.                                                 *)
EXTENDS ShuffleBuffer, SequenceTheorems, TLAPS

ASSUME ConstAssump == N \in Nat /\ B \in Nat /\ B >= 1 /\ Cyclic = FALSE

Hand == IF pc = "yield" THEN {newel} ELSE {}

BInv ==
    /\ pulled \in Nat /\ pulled <= N
    /\ buf \in Seq(Nat) /\ out \in Seq(Nat) /\ newel \in Nat
    /\ pc \in {"fill", "pull", "yield", "flush", "done"}
    /\ NoDup(buf) /\ NoDup(out)
    /\ SeqSet(buf) \cap SeqSet(out) = {}
    /\ SeqSet(buf) \cup SeqSet(out) \cup Hand = 1..pulled
    /\ pc = "yield" => newel \notin SeqSet(buf) \cup SeqSet(out)
    /\ pc \in {"flush", "done"} => pulled = N
    /\ pc = "done" => buf = <<>>
    /\ pc \in {"pull", "yield"} => Len(buf) >= 1

(* ---- facts about sequences as sets -------------------------------------------------------------------- *)
LEMMA AppendSet ==
    ASSUME NEW s \in Seq(Nat), NEW x \in Nat
    PROVE  /\ SeqSet(Append(s, x)) = SeqSet(s) \cup {x}
           /\ (NoDup(s) /\ x \notin SeqSet(s)) => NoDup(Append(s, x))
  <1>1. /\ Len(Append(s, x)) = Len(s) + 1
        /\ \A j \in 1..Len(s) : Append(s, x)[j] = s[j]
        /\ Append(s, x)[Len(s) + 1] = x
        /\ Len(s) \in Nat
    BY AppendProperties, LenProperties
  <1>2. SeqSet(Append(s, x)) = SeqSet(s) \cup {x}
    <2>1. ASSUME NEW y \in SeqSet(Append(s, x)) PROVE y \in SeqSet(s) \cup {x}
      <3>1. PICK i \in 1..Len(Append(s, x)) : y = Append(s, x)[i]
        BY DEF SeqSet
      <3>2. CASE i = Len(s) + 1
        BY <3>1, <3>2, <1>1
      <3>3. CASE i \in 1..Len(s)
        BY <3>1, <3>3, <1>1 DEF SeqSet
      <3> QED BY <3>1, <3>2, <3>3, <1>1
    <2>2. ASSUME NEW y \in SeqSet(s) \cup {x} PROVE y \in SeqSet(Append(s, x))
      <3>1. CASE y = x
        <4>1. Len(s) + 1 \in 1..Len(Append(s, x))
          BY <1>1
        <4> QED BY <3>1, <4>1, <1>1 DEF SeqSet
      <3>2. CASE y \in SeqSet(s)
        <4>1. PICK i \in 1..Len(s) : y = s[i]
          BY <3>2 DEF SeqSet
        <4>2. i \in 1..Len(Append(s, x)) /\ Append(s, x)[i] = y
          BY <4>1, <1>1
        <4> QED BY <4>2 DEF SeqSet
      <3> QED BY <3>1, <3>2
    <2> QED BY <2>1, <2>2
  <1>3. ASSUME NoDup(s), x \notin SeqSet(s) PROVE NoDup(Append(s, x))
    <2> SUFFICES ASSUME NEW i \in 1..Len(Append(s, x)), NEW j \in 1..Len(Append(s, x)), i # j
                 PROVE  Append(s, x)[i] # Append(s, x)[j]
      BY DEF NoDup
    <2>1. CASE i \in 1..Len(s) /\ j \in 1..Len(s)
      BY <2>1, <1>1, <1>3 DEF NoDup
    <2>2. CASE i = Len(s) + 1 /\ j \in 1..Len(s)
      BY <2>2, <1>1, <1>3 DEF SeqSet
    <2>3. CASE j = Len(s) + 1 /\ i \in 1..Len(s)
      BY <2>3, <1>1, <1>3 DEF SeqSet
    <2> QED BY <2>1, <2>2, <2>3, <1>1
  <1> QED BY <1>2, <1>3

LEMMA ExceptSet ==
    ASSUME NEW s \in Seq(Nat), NEW i \in 1..Len(s), NEW x \in Nat, NoDup(s), x \notin SeqSet(s)
    PROVE  LET t == [s EXCEPT ![i] = x]
           IN  /\ t \in Seq(Nat) /\ Len(t) = Len(s)
               /\ SeqSet(t) = (SeqSet(s) \ {s[i]}) \cup {x}
               /\ NoDup(t)
  <1> DEFINE t == [s EXCEPT ![i] = x]
  <1>1. t \in Seq(Nat) /\ Len(t) = Len(s) /\ \A j \in 1..Len(s) : t[j] = IF j = i THEN x ELSE s[j]
    BY ExceptSeq
  <1>2. SeqSet(t) = (SeqSet(s) \ {s[i]}) \cup {x}
    <2>1. ASSUME NEW y \in SeqSet(t) PROVE y \in (SeqSet(s) \ {s[i]}) \cup {x}
      <3>1. PICK j \in 1..Len(t) : y = t[j]
        BY DEF SeqSet
      <3>2. CASE j = i
        BY <3>1, <3>2, <1>1
      <3>3. CASE j # i
        <4>1. y = s[j] /\ j \in 1..Len(s)
          BY <3>1, <3>3, <1>1
        <4>2. s[j] # s[i]
          BY <4>1, <3>3 DEF NoDup
        <4> QED BY <4>1, <4>2 DEF SeqSet
      <3> QED BY <3>2, <3>3
    <2>2. ASSUME NEW y \in (SeqSet(s) \ {s[i]}) \cup {x} PROVE y \in SeqSet(t)
      <3>1. CASE y = x
        BY <3>1, <1>1 DEF SeqSet
      <3>2. CASE y \in SeqSet(s) /\ y # s[i]
        <4>1. PICK j \in 1..Len(s) : y = s[j]
          BY <3>2 DEF SeqSet
        <4>2. j # i /\ t[j] = y /\ j \in 1..Len(t)
          BY <4>1, <3>2, <1>1
        <4> QED BY <4>2 DEF SeqSet
      <3> QED BY <3>1, <3>2
    <2> QED BY <2>1, <2>2
  <1>3. NoDup(t)
    <2> SUFFICES ASSUME NEW a \in 1..Len(t), NEW b \in 1..Len(t), a # b PROVE t[a] # t[b]
      BY DEF NoDup
    <2>1. CASE a # i /\ b # i
      BY <2>1, <1>1 DEF NoDup
    <2>2. CASE a = i
      <3>1. t[a] = x /\ t[b] = s[b] /\ b \in 1..Len(s)
        BY <2>2, <1>1
      <3> QED BY <3>1 DEF SeqSet
    <2>3. CASE b = i
      <3>1. t[b] = x /\ t[a] = s[a] /\ a \in 1..Len(s)
        BY <2>3, <1>1
      <3> QED BY <3>1 DEF SeqSet
    <2> QED BY <2>1, <2>2, <2>3
  <1> QED BY <1>1, <1>2, <1>3

LEMMA RemoveSet ==
    ASSUME NEW s \in Seq(Nat), NEW i \in 1..Len(s), NoDup(s)
    PROVE  LET t == [j \in 1..Len(s) - 1 |-> IF j < i THEN s[j] ELSE s[j + 1]]
           IN  /\ t \in Seq(Nat) /\ Len(t) = Len(s) - 1
               /\ SeqSet(t) = SeqSet(s) \ {s[i]}
               /\ NoDup(t)
  <1> DEFINE t == [j \in 1..Len(s) - 1 |-> IF j < i THEN s[j] ELSE s[j + 1]]
  <1>0. Len(s) \in Nat /\ Len(s) >= 1 /\ Len(s) - 1 \in Nat
    BY LenProperties
  <1>1. t \in Seq(Nat) /\ Len(t) = Len(s) - 1
    <2>1. \A j \in 1..Len(s) - 1 : (IF j < i THEN s[j] ELSE s[j + 1]) \in Nat
      BY <1>0, ElementOfSeq
    <2> QED BY <1>0, <2>1, IsASeq
  <1>2. \A j \in 1..Len(s) - 1 : t[j] = IF j < i THEN s[j] ELSE s[j + 1]
    OBVIOUS
  <1>3. SeqSet(t) = SeqSet(s) \ {s[i]}
    <2>1. ASSUME NEW y \in SeqSet(t) PROVE y \in SeqSet(s) \ {s[i]}
      <3>1. PICK j \in 1..Len(t) : y = t[j]
        BY DEF SeqSet
      <3>2. CASE j < i
        <4>1. y = s[j] /\ j \in 1..Len(s) /\ j # i
          BY <3>1, <3>2, <1>1, <1>2, <1>0
        <4> QED BY <4>1 DEF SeqSet, NoDup
      <3>3. CASE ~(j < i)
        <4>1. y = s[j + 1] /\ j + 1 \in 1..Len(s) /\ j + 1 # i
          BY <3>1, <3>3, <1>1, <1>2, <1>0
        <4> QED BY <4>1 DEF SeqSet, NoDup
      <3> QED BY <3>2, <3>3
    <2>2. ASSUME NEW y \in SeqSet(s) \ {s[i]} PROVE y \in SeqSet(t)
      <3>1. PICK j \in 1..Len(s) : y = s[j]
        BY DEF SeqSet
      <3>2. j # i
        BY <3>1
      <3>3. CASE j < i
        <4>1. j \in 1..Len(t) /\ t[j] = y
          BY <3>1, <3>3, <1>0, <1>1, <1>2
        <4> QED BY <4>1 DEF SeqSet
      <3>4. CASE j > i
        <4>1. j - 1 \in 1..Len(t) /\ t[j - 1] = y
          BY <3>1, <3>4, <1>0, <1>1, <1>2
        <4> QED BY <4>1 DEF SeqSet
      <3> QED BY <3>2, <3>3, <3>4, <1>0
    <2> QED BY <2>1, <2>2
  <1>4. NoDup(t)
    <2> SUFFICES ASSUME NEW a \in 1..Len(t), NEW b \in 1..Len(t), a # b PROVE t[a] # t[b]
      BY DEF NoDup
    <2>1. PICK a2 \in 1..Len(s) : t[a] = s[a2] /\ a2 = (IF a < i THEN a ELSE a + 1)
      BY <1>0, <1>1, <1>2
    <2>2. PICK b2 \in 1..Len(s) : t[b] = s[b2] /\ b2 = (IF b < i THEN b ELSE b + 1)
      BY <1>0, <1>1, <1>2
    <2>3. a2 # b2
      BY <2>1, <2>2, <1>0
    <2> QED BY <2>1, <2>2, <2>3 DEF NoDup
  <1> QED BY <1>1, <1>3, <1>4

(* ---- the invariant ------------------------------------------------------------------------------------ *)
LEMMA ElemId == \A k \in Nat : Elem(k) = k
  BY ConstAssump DEF Elem

LEMMA EmptyFacts == SeqSet(<<>>) = {} /\ NoDup(<<>>) /\ <<>> \in Seq(Nat)
  BY EmptySeq DEF SeqSet, NoDup

LEMMA InitBInv == Init => BInv
  BY ConstAssump, EmptyFacts DEF Init, BInv, Hand

LEMMA NextBInv == BInv /\ [Next]_vars => BInv'
  <1> SUFFICES ASSUME BInv, [Next]_vars PROVE BInv'
    OBVIOUS
  <1> USE ConstAssump
  <1>0. Len(buf) \in Nat /\ Len(out) \in Nat
    BY LenProperties DEF BInv
  <1>1. CASE FillPull
    <2>0. pc = "fill" /\ pulled < N /\ pulled' = pulled + 1 /\ buf' = Append(buf, pulled + 1)
          /\ out' = out /\ pc' = pc /\ newel' = newel
      BY <1>1, ElemId DEF FillPull, HasMore, BInv
    <2>1. pulled + 1 \in Nat /\ pulled + 1 \notin SeqSet(buf) /\ pulled + 1 \notin SeqSet(out)
      BY <2>0 DEF BInv, Hand
    <2>2. SeqSet(buf') = SeqSet(buf) \cup {pulled + 1} /\ NoDup(buf') /\ buf' \in Seq(Nat)
      BY <2>0, <2>1, AppendSet, AppendProperties DEF BInv
    <2>3. Hand' = {} /\ Hand = {}
      BY <2>0 DEF Hand
    <2>4. SeqSet(buf') \cup SeqSet(out') \cup Hand' = 1..pulled'
      BY <2>0, <2>1, <2>2, <2>3 DEF BInv
    <2> QED BY <2>0, <2>1, <2>2, <2>3, <2>4 DEF BInv
  <1>2. CASE FillEnd
    <2>0. pc = "fill" /\ UNCHANGED <<pulled, buf, out, newel>> /\ pc' \in {"pull", "flush"}
          /\ (pc' = "pull" => Len(buf) = B) /\ (pc' = "flush" => pulled >= N)
      BY <1>2 DEF FillEnd, HasMore, BInv
    <2>1. Hand' = {} /\ Hand = {}
      BY <2>0 DEF Hand
    <2> QED BY <2>0, <2>1 DEF BInv
  <1>3. CASE LoopPull
    <2>1. CASE HasMore
      <3>0. pc = "pull" /\ pulled < N /\ pulled' = pulled + 1 /\ newel' = pulled + 1 /\ pc' = "yield"
            /\ buf' = buf /\ out' = out
        BY <1>3, <2>1, ElemId DEF LoopPull, HasMore, BInv
      <3>1. Hand = {} /\ Hand' = {pulled + 1}
        BY <3>0 DEF Hand
      <3>2. pulled + 1 \notin SeqSet(buf) \cup SeqSet(out)
        BY <3>0, <3>1 DEF BInv
      <3>3. SeqSet(buf') \cup SeqSet(out') \cup Hand' = 1..pulled'
        BY <3>0, <3>1 DEF BInv
      <3> QED BY <3>0, <3>1, <3>2, <3>3 DEF BInv
    <2>2. CASE ~HasMore
      <3>0. pc = "pull" /\ pc' = "flush" /\ UNCHANGED <<pulled, newel, buf, out>> /\ pulled >= N
        BY <1>3, <2>2 DEF LoopPull, HasMore, BInv
      <3>1. Hand = {} /\ Hand' = {}
        BY <3>0 DEF Hand
      <3> QED BY <3>0, <3>1 DEF BInv
    <2> QED BY <2>1, <2>2
  <1>4. ASSUME NEW i \in 1..B, LoopYield(i) PROVE BInv'
    <2>0. pc = "yield" /\ i \in 1..Len(buf) /\ out' = Append(out, buf[i]) /\ buf' = [buf EXCEPT ![i] = newel]
          /\ pc' = "pull" /\ pulled' = pulled /\ newel' = newel
      BY <1>4 DEF LoopYield
    <2>1. buf[i] \in Nat /\ buf[i] \in SeqSet(buf) /\ buf[i] \notin SeqSet(out) /\ newel \notin SeqSet(buf)
          /\ newel \notin SeqSet(out) /\ newel # buf[i]
      BY <2>0, ElementOfSeq DEF BInv, SeqSet
    <2>2. SeqSet(out') = SeqSet(out) \cup {buf[i]} /\ NoDup(out') /\ out' \in Seq(Nat)
      BY <2>0, <2>1, AppendSet, AppendProperties DEF BInv
    <2>3. buf' \in Seq(Nat) /\ Len(buf') = Len(buf) /\ SeqSet(buf') = (SeqSet(buf) \ {buf[i]}) \cup {newel}
          /\ NoDup(buf')
      BY <2>0, <2>1, ExceptSet DEF BInv
    <2>4. Hand = {newel} /\ Hand' = {}
      BY <2>0 DEF Hand
    <2>5. SeqSet(buf') \cap SeqSet(out') = {}
      BY <2>1, <2>2, <2>3 DEF BInv
    <2>6. SeqSet(buf') \cup SeqSet(out') \cup Hand' = 1..pulled'
      BY <2>0, <2>1, <2>2, <2>3, <2>4 DEF BInv
    <2> QED BY <2>0, <2>2, <2>3, <2>4, <2>5, <2>6, <1>0 DEF BInv
  <1>5. ASSUME NEW i \in 1..B, Flush(i) PROVE BInv'
    <2>0. pc = "flush" /\ i \in 1..Len(buf) /\ out' = Append(out, buf[i])
          /\ buf' = [j \in 1..Len(buf) - 1 |-> IF j < i THEN buf[j] ELSE buf[j + 1]]
          /\ pc' = pc /\ pulled' = pulled /\ newel' = newel
      BY <1>5 DEF Flush
    <2>1. buf[i] \in Nat /\ buf[i] \in SeqSet(buf) /\ buf[i] \notin SeqSet(out)
      BY <2>0, ElementOfSeq DEF BInv, SeqSet
    <2>2. SeqSet(out') = SeqSet(out) \cup {buf[i]} /\ NoDup(out') /\ out' \in Seq(Nat)
      BY <2>0, <2>1, AppendSet, AppendProperties DEF BInv
    <2>3. buf' \in Seq(Nat) /\ SeqSet(buf') = SeqSet(buf) \ {buf[i]} /\ NoDup(buf')
      BY <2>0, RemoveSet DEF BInv
    <2>4. Hand = {} /\ Hand' = {}
      BY <2>0 DEF Hand
    <2>5. SeqSet(buf') \cap SeqSet(out') = {}
      BY <2>1, <2>2, <2>3 DEF BInv
    <2>6. SeqSet(buf') \cup SeqSet(out') \cup Hand' = 1..pulled'
      BY <2>0, <2>1, <2>2, <2>3, <2>4 DEF BInv
    <2> QED BY <2>0, <2>2, <2>3, <2>4, <2>5, <2>6 DEF BInv
  <1>6. CASE Done
    <2>0. pc = "flush" /\ buf = <<>> /\ pc' = "done" /\ UNCHANGED <<pulled, buf, out, newel>>
      BY <1>6 DEF Done
    <2>1. Hand = {} /\ Hand' = {}
      BY <2>0 DEF Hand
    <2> QED BY <2>0, <2>1 DEF BInv
  <1>7. CASE Finished
    BY <1>7 DEF Finished, BInv, vars, Hand
  <1>8. CASE UNCHANGED vars
    BY <1>8 DEF BInv, vars, Hand
  <1> QED BY <1>1, <1>2, <1>3, <1>4, <1>5, <1>6, <1>7, <1>8 DEF Next

LEMMA BInvBag == BInv => BagPreserving
  <1> SUFFICES ASSUME BInv PROVE BagPreserving
    OBVIOUS
  <1> USE ConstAssump
  <1>1. Pulled = 1..pulled /\ {Elem(kk) : kk \in 1..N} = 1..N
    BY ElemId DEF Pulled, BInv
  <1>2. SeqSet(out) \subseteq Pulled
    BY <1>1 DEF BInv
  <1>3. pc = "done" => SeqSet(out) = 1..N /\ pulled = N
    BY EmptyFacts DEF BInv, Hand
  <1> QED BY <1>1, <1>2, <1>3 DEF BInv, BagPreserving

THEOREM BagPreservingForAllSources == Spec => []BagPreserving
  <1>1. Spec => []BInv
    BY InitBInv, NextBInv, PTL DEF Spec
  <1> QED BY <1>1, BInvBag, PTL
===============================================================================
