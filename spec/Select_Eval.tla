----------------------------- MODULE Select_Eval -----------------------------
(* Judges observations of the real selection (every interface) against Select: one initial state per      *)
(* observation [mds, pred, k, lim, got] where got is the sequence of selected shard positions or "error". *)
EXTENDS Select, TLCExt
VARIABLE idx
Obs == JsonDeserialize(IOEnv.OBS_FILE)
EInit == idx \in 1..Len(Obs) /\ mds = Obs[idx].mds /\ k = Obs[idx].k /\ lim = Obs[idx].lim
         /\ pred = [nof |-> Obs[idx].nofilter, acc |-> {Obs[idx].pred[i] : i \in 1..Len(Obs[idx].pred)}]
ENext == FALSE /\ UNCHANGED <<vars, idx>>
ESpec == EInit /\ [][ENext]_<<vars, idx>>
Expected == Select(mds, pred, k, lim)
Agree == IF Obs[idx].error THEN Expected.err
         ELSE ~Expected.err /\
              (IF Obs[idx].ordered THEN Expected.sel = Obs[idx].got
               ELSE {Expected.sel[i] : i \in 1..Len(Expected.sel)} = {Obs[idx].got[i] : i \in 1..Len(Obs[idx].got)}
                    /\ Len(Expected.sel) = Len(Obs[idx].got))
Judge == Agree \/ PrintT(<<"DISAGREE", idx>>)
===============================================================================
