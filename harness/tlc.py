"""Thin driver around TLC: run a module with a generated cfg, parse statistics, coverage, error
traces, PrintT output; export state graphs (-dump dot,actionlabels) and simulation traces."""
from __future__ import annotations

import dataclasses
import os
import re
import shutil
import subprocess
import tempfile
import time
from pathlib import Path

from . import tlaval

SPEC_DIR = Path(__file__).resolve().parent.parent / "spec"
JAR = "/opt/veriftools/tla/tla2tools.jar:/opt/veriftools/tla/CommunityModules-deps.jar"


class TLCError(RuntimeError):
    """Machinery failure (exit 2), never a property violation."""


@dataclasses.dataclass
class TLCResult:
    ok: bool  # no invariant / property violation, no error
    states: int
    distinct: int
    depth: int
    coverage: dict  # action name -> (distinct, total)
    violated: list  # names of violated invariants / properties / "deadlock"
    prints: list  # parsed PrintT values
    error_trace: list  # list of (action label, state dict)
    out: str
    wall_s: float
    cmd: str

    def zero_actions(self, ignore=()):
        return sorted(a for a, (d, t) in self.coverage.items() if t == 0 and a not in ignore)


def make_cfg(path: Path, *, spec: str | None = None, init: str | None = None, next_: str | None = None,
             constants: dict | None = None, invariants=(), properties=(), constraints=(),
             action_constraints=(), view: str | None = None, symmetry: str | None = None,
             postcondition: str | None = None, deadlock: bool = False, raw: str = "") -> Path:
    lines = []
    if spec:
        lines.append(f"SPECIFICATION {spec}")
    if init:
        lines.append(f"INIT {init}")
    if next_:
        lines.append(f"NEXT {next_}")
    if constants:
        lines.append("CONSTANTS")
        for k, v in constants.items():
            if isinstance(v, str) and v.startswith("<-"):
                lines.append(f"  {k} {v}")
            else:
                lines.append(f"  {k} = {tlaval.to_tla(v)}")
    for i in invariants:
        lines.append(f"INVARIANT {i}")
    for p in properties:
        lines.append(f"PROPERTY {p}")
    for c in constraints:
        lines.append(f"CONSTRAINT {c}")
    for c in action_constraints:
        lines.append(f"ACTION_CONSTRAINT {c}")
    if view:
        lines.append(f"VIEW {view}")
    if symmetry:
        lines.append(f"SYMMETRY {symmetry}")
    if postcondition:
        lines.append(f"POSTCONDITION {postcondition}")
    lines.append(f"CHECK_DEADLOCK {'TRUE' if deadlock else 'FALSE'}")
    if raw:
        lines.append(raw)
    path.write_text("\n".join(lines) + "\n")
    return path


def make_model(d: Path, base: str, constants: dict, name: str = "MC", extra_defs: str = "", **kw):
    """Write <d>/<name>.tla (EXTENDS base, constants as definitions) and <d>/<name>.cfg; returns (name, cfg).
    Needed because cfg files cannot express tuples / records. Run with workdir=d."""
    d.mkdir(parents=True, exist_ok=True)
    defs = "\n".join(f"c_{k} == {tlaval.to_tla(v)}" for k, v in constants.items())
    (d / f"{name}.tla").write_text(f"---- MODULE {name} ----\nEXTENDS {base}\n{defs}\n{extra_defs}\n====\n")
    cfg = make_cfg(d / f"{name}.cfg", constants={k: f"<- c_{k}" for k in constants}, **kw)
    return name, cfg


_STATS = re.compile(r"(\d+) states generated, (\d+) distinct states found")
_DEPTH = re.compile(r"The depth of the complete state graph search is (\d+)")
_COV = re.compile(r"^<(\w+) line \d+, col \d+ to line \d+, col \d+ of module (\w+)>: (\d+):(\d+)", re.M)
_INV = re.compile(r"Error: Invariant (\w+) is violated")
_PROP = re.compile(r"Error: (?:Action|Temporal) propert(?:y|ies) (\w+)? ?(?:is|were) violated")
_STATE_HDR = re.compile(r"^State (\d+): <(.*?)>\s*$", re.M)


def run(module: str, cfg: Path, *, workers: int | str = "auto", simulate: str | None = None,
        depth: int | None = None, dump: Path | None = None, seed: int | None = None,
        env: dict | None = None, timeout: float = 1800, coverage: bool = True,
        cont: bool = False, extra=(), metadir: Path | None = None, dfs_queue: bool = False,
        heap: str = "8g", workdir: Path | None = None) -> TLCResult:
    """Run TLC on /verif/spec/<module>.tla with cfg. Raises TLCError on machinery failure."""
    own_meta = metadir is None
    if own_meta:
        metadir = Path(tempfile.mkdtemp(prefix="tlcmeta_"))
    cmd = ["java", "-XX:+UseParallelGC", f"-Xmx{heap}", f"-DTLA-Library={SPEC_DIR}"]
    if dfs_queue:
        cmd.append("-Dtlc2.tool.queue.IStateQueue=StateDeque")
    cmd += ["-cp", JAR, "tlc2.TLC", "-noGenerateSpecTE", "-metadir", str(metadir), "-workers", str(workers),
            "-config", str(cfg)]
    if coverage and not simulate:
        cmd += ["-coverage", "1"]
    if simulate:
        cmd += ["-simulate", simulate]
    if depth is not None:
        cmd += ["-depth", str(depth)]
    if seed is not None:
        cmd += ["-seed", str(seed)]
    if dump is not None:
        cmd += ["-dump", "dot,actionlabels", str(dump)]
    if cont:
        cmd.append("-continue")
    cmd += list(extra)
    cmd.append(f"{module}.tla")
    e = dict(os.environ)
    if env:
        e.update({k: str(v) for k, v in env.items()})
    t0 = time.time()
    try:
        p = subprocess.run(cmd, cwd=workdir or SPEC_DIR, env=e, capture_output=True, text=True, timeout=timeout)
    except subprocess.TimeoutExpired as exc:
        out = (exc.stdout or b"")
        out = out.decode() if isinstance(out, bytes) else out
        if own_meta:
            shutil.rmtree(metadir, ignore_errors=True)
        raise TLCError(f"TLC timeout after {timeout}s: {' '.join(cmd)}\n{out[-2000:]}")
    finally:
        pass
    wall = time.time() - t0
    if own_meta:
        shutil.rmtree(metadir, ignore_errors=True)
    out = p.stdout + p.stderr
    violated = _INV.findall(out)
    for m in _PROP.finditer(out):
        violated.append(m.group(1) or "temporal")
    if "Error: Deadlock reached" in out:
        violated.append("deadlock")
    if "Temporal properties were violated" in out and "temporal" not in violated:
        violated.append("temporal")
    stats = _STATS.findall(out)
    states, distinct = (int(stats[-1][0]), int(stats[-1][1])) if stats else (0, 0)
    dm = _DEPTH.search(out)
    cov = {}
    for name, mod, d, t in _COV.findall(out):
        if name in ("Init",) or name.endswith("Init"):
            continue
        cur = cov.get(name, (0, 0))
        cov[name] = (cur[0] + int(d), cur[1] + int(t))
    prints = []
    for line in out.splitlines():
        line = line.strip()
        if line.startswith("<<") or line.startswith('"'):
            try:
                prints.append(tlaval.parse_value(line))
            except (ValueError, IndexError):
                pass
    etrace = []
    if violated:
        hdrs = list(_STATE_HDR.finditer(out))
        for i, h in enumerate(hdrs):
            end = hdrs[i + 1].start() if i + 1 < len(hdrs) else len(out)
            body = out[h.end():end]
            body = body.split("\n\n")[0]
            try:
                etrace.append((h.group(2), tlaval.parse_state(body)))
            except (ValueError, IndexError):
                etrace.append((h.group(2), {}))
    hard_error = False
    if p.returncode != 0 and not violated:
        hard_error = True
    # TLC "Error:" lines that are not violations (parse errors, evaluation errors) are machinery failures
    for m in re.finditer(r"^Error: (.*)$", out, re.M):
        msg = m.group(1)
        if any(k in msg for k in ("is violated", "were violated", "Deadlock reached", "The behavior up to",
                                   "The following behavior", "Temporal properties")):
            continue
        if violated and ("The error occurred" in msg):
            continue
        hard_error = True
    if hard_error and not violated:
        raise TLCError(f"TLC failed (rc={p.returncode}): {' '.join(cmd)}\n{out[-4000:]}")
    return TLCResult(ok=not violated, states=states, distinct=distinct, depth=int(dm.group(1)) if dm else 0,
                     coverage=cov, violated=violated, prints=prints, error_trace=etrace, out=out, wall_s=wall,
                     cmd=" ".join(cmd[cmd.index("tlc2.TLC"):]))


# ------------------------------------------------------------------------------------------------
# state graph export


@dataclasses.dataclass
class Graph:
    nodes: dict  # id -> state dict
    edges: list  # (src, dst, label)
    init: list  # ids


_HEAD = re.compile(r'^(-?\d+)(?: -> (-?\d+))? \[label="')


def _scan_quoted(line: str, i: int) -> tuple[str, int]:
    """Scan a dot string starting after the opening quote; returns (unescaped text, index after closing quote)."""
    out = []
    while line[i] != '"':
        if line[i] == "\\":
            nxt = line[i + 1]
            out.append("\n" if nxt == "n" else nxt)
            i += 2
        else:
            out.append(line[i])
            i += 1
    return "".join(out), i + 1


def load_graph(dot: Path) -> Graph:
    nodes, edges, init = {}, [], []
    for line in dot.read_text().splitlines():
        line = line.strip()
        m = _HEAD.match(line)
        if not m:
            continue
        text, end = _scan_quoted(line, m.end())
        if m.group(2) is not None:
            edges.append((m.group(1), m.group(2), text))
        else:
            nodes[m.group(1)] = tlaval.parse_state(text)
            if line[end:].startswith(",style = filled"):
                init.append(m.group(1))
    return Graph(nodes, edges, init)


def edge_cover_paths(g: Graph, max_paths: int | None = None, skip_self_loops: bool = True):
    """Paths (lists of (label, dst id)) from an initial state that together cover every edge."""
    from collections import defaultdict, deque
    out = defaultdict(list)
    for e in g.edges:
        if skip_self_loops and e[0] == e[1]:
            continue
        out[e[0]].append(e)
    # BFS tree for shortest prefix to each node
    parent = {i: None for i in g.init}
    dq = deque(g.init)
    while dq:
        n = dq.popleft()
        for e in out[n]:
            if e[1] not in parent:
                parent[e[1]] = e
                dq.append(e[1])
    uncovered = {e for es in out.values() for e in es}
    order = sorted(uncovered, key=lambda e: (e[0], e[1], e[2]))
    paths = []
    for e in order:
        if e not in uncovered:
            continue
        if e[0] not in parent:
            continue
        prefix = []
        n = e[0]
        while parent[n] is not None:
            prefix.append(parent[n])
            n = parent[n][0]
        prefix.reverse()
        path = prefix + [e]
        for x in path:
            uncovered.discard(x)
        # greedily extend along uncovered edges, then along any edge until terminal (bounded)
        cur = e[1]
        steps = 0
        while steps < 10_000:
            nxt = [x for x in out[cur] if x in uncovered]
            if not nxt:
                break
            x = nxt[0]
            uncovered.discard(x)
            path.append(x)
            cur = x[1]
            steps += 1
        # finish: follow BFS-unrelated arbitrary edges to a terminal state so the replay ends cleanly
        seen = {cur}
        while out[cur]:
            x = out[cur][0]
            if x[1] in seen:
                break
            path.append(x)
            cur = x[1]
            seen.add(cur)
        paths.append([(x[2], x[1]) for x in path])
        if max_paths and len(paths) >= max_paths:
            break
    return paths


_SIM_ACT = re.compile(r"^\\\* <(.*?)>\s*$")


def load_sim_trace(path: Path):
    """Parse a `-simulate file=` behaviour file into [(action label or None, state dict)]."""
    txt = path.read_text()
    steps = []
    cur_label = None
    for block in re.split(r"\n\s*\n", txt):
        lines = block.strip().splitlines()
        if not lines:
            continue
        label = None
        body = []
        for ln in lines:
            m = _SIM_ACT.match(ln.strip())
            if m:
                label = m.group(1)
            elif ln.startswith("STATE_") or ln.startswith("===") or ln.startswith("----"):
                continue
            else:
                body.append(ln)
        if body:
            try:
                steps.append((label, tlaval.parse_state("\n".join(body))))
            except (ValueError, IndexError):
                continue
    return steps


def label_name(label: str) -> tuple[str, str]:
    """`Foo(1, "a") line 3, col ...` -> ("Foo", '1, "a"')."""
    label = label.strip()
    m = re.match(r"^(\w+)(?:\((.*?)\))?(?: line .*)?$", label, re.S)
    if not m:
        return label, ""
    return m.group(1), m.group(2) or ""


def sany(module: str) -> None:
    p = subprocess.run(["java", "-cp", JAR, "tla2sany.SANY", f"{module}.tla"], cwd=SPEC_DIR, capture_output=True,
                       text=True)
    if p.returncode != 0 or "Semantic errors" in p.stdout or "Parse Error" in p.stdout or "*** Errors" in p.stdout:
        raise TLCError(f"SANY failed for {module}:\n{p.stdout[-3000:]}{p.stderr[-1000:]}")
